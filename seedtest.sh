#!/bin/sh
# usage: seedtest.sh <patch.diff> <Cxx> [Cxx...]   applies a seeded change to /repo, runs the quick checks, reverts
patch="$1"; shift
cd /repo || exit 2
git diff --quiet || { echo "/repo has uncommitted changes"; exit 2; }
git apply "$patch" || { echo "patch does not apply"; exit 2; }
for P in "$@"; do
  out=$(cd /verif && VERIF_DIR=/tmp/vt_seed ./check $P 2>&1)
  rc=$?
  echo "== $P rc=$rc: $(echo "$out" | grep -E 'VIOLATION|HARNESS' | head -2 | tr '\n' ' ') $(echo "$out" | grep -E 'oracle=' | head -1)"
done
git -C /repo checkout -- .
# leave binaries of the unpatched tree behind
(cd /verif/sim && CARGO_NET_OFFLINE=true cargo build --release --offline -q; cd /verif/sim-sr && CARGO_NET_OFFLINE=true cargo build --release --offline -q) >/dev/null 2>&1

