#!/usr/bin/env python3
"""Regenerates /verif/MANIFEST.json from the table below (keeps it valid at all times)."""
import json, subprocess

HOOK_COMMITS = [l.split()[0] for l in subprocess.run(
    ["git", "-C", "/repo", "log", "--format=%h %s"], capture_output=True, text=True).stdout.splitlines()
    if "verif hook" in l]

# id -> (level, technique, level text, level note, design ref)
CLAIMED = {
    "C01": ("exploration",
            "deterministic simulation: seeded schedules of member operations, delivery-service decisions (races, reordering, duplication, loss) and crashes; agreement invariant against the first member to reach each epoch",
            "Every simulated run drives real mls-rs members (2-40 parties) through a seeded history of commits, proposals, external commits, identity changes, removals and re-adds under a simulated delivery service; whenever a member reaches an epoch its context, roster, exported tree, epoch authenticator and three exported secrets must equal those of the first member that reached it, epochs must advance by exactly one, and every application message delivered in its epoch must decrypt with the true sender, payload and AAD. After faults stop, everything outstanding is delivered and one more commit must be accepted by all live members (bounded liveness). Sampled, not exhaustive.",
            "trusted: the simulator's membership/pending model (decides which deliveries must succeed), RustCrypto with PRNG-driven key generation; OpenSSL/AWS-LC mixes are covered by C14",
            "DESIGN.md §6.C01"),
    "C03": ("exploration",
            "deterministic simulation with network corruption faults (bit flips, truncations, splices of two valid messages, stale and losing commits) and a Byzantine member (honest library + commit-modifier hook signing structurally invalid update paths / leaves / trees)",
            "On top of the C01 world, corrupted copies of every message kind the delivery service carries are delivered before or after the genuine copy, and a current member signs commits with a too short / too long / permuted update path, foreign keys, a wrong parent hash or an invalid leaf - including commits that are consistent in everything but one fact: a key on the committer's own path that does not come from its path secrets (must be noticed by every receiver below that node), or a path that is one node short with parent hashes to match; every such delivery must return an error (never a panic, never acceptance), genuine deliveries must still report the true sender, payload and AAD, and the group must still converge after the faults stop. Sampled positions and histories.",
            "trusted: the simulator's notion of which mutated bytes are 'modified' (any byte difference), the H4 hook producing the structurally invalid commits; forging PrivateMessages and Welcome/GroupInfo corruption for joiners are covered under C07/C16",
            "DESIGN.md §6.C03"),
    "C04": ("exploration",
            "deterministic simulation: complete member state (hook H1, per component) captured before every delivery / build that returns an error and compared afterwards; rejected inputs from corruption, wrong epoch, missing proposals, Byzantine commits failing at different pipeline stages",
            "Every delivery or commit/proposal build that returns Err is bracketed by a component-wise snapshot of the complete member state (context, proposal caches, tree, private tree, epoch secrets incl. ratchets, key schedule, pending updates, pending commit, signer, pending prior-epoch records); any difference is a violation, the genuine copy of a rejected message must still be accepted afterwards, and the group must still converge (bounded liveness). A probe records which error class each rejection came from so evidence shows the stages reached.",
            "trusted: hook H1 encodes all state of a member; the cache-fill rule for prior-epoch records (DESIGN §5)",
            "DESIGN.md §6.C04"),
    "C06": ("exploration",
            "deterministic simulation with crash/restart faults: after every write the party's whole disk is forked and loaded by a fresh client (loaded state == saved state, component-wise); the loaded group is kept as a twin and driven in lock-step with the never-reloaded original; crashes at arbitrary points must restore exactly the last written state; in-memory and SQLite providers run mirrored",
            "At every write_to_storage of every member the disk (group-state, key-package and PSK stores) and the member's crypto PRNG are forked, a new Client loads the group from the fork and its complete state (hook H1, canonical encoding) must equal the saved member, including pending commit, cached proposals and pending own updates. Up to three members per world keep that loaded group as a twin: every later library call is repeated on the twin and state, outcome and (after writes) stored history must stay equal. A crash drops the live object with its unwritten work; load_group must return exactly the state recorded at the last write and the member must catch up from the delivery service log. Half the runs use a Mirror store (every call to both the in-memory and the SQLite provider, compared through the trait after every write); retention 1/2/3/5.",
            "trusted: H1 covers all member state; the crash model is 'process dies between two storage-trait calls' (no torn writes below SQLite); twin lock-step stops when a commit carries >= 2 by-reference proposals because their order follows a randomly keyed hash map",
            "DESIGN.md §6.C06"),
    "C11": ("exploration",
            "deterministic simulation of racing committers: several members (and external joiners) commit in the same epoch, the simulated delivery service picks the winner, losers and applied commits are re-delivered as stale; pending-commit model checked after every build / clear / apply / detached apply",
            "Interleavings of commit, commit_detached, clear_pending_commit, apply_pending_commit, own-commit echo, foreign commits, write/crash/reload with a pending commit and apply_detached_commit (fresh and stale) by several racing members under every DS winner choice. After a build the member's complete state (H1) may differ only in the pending-commit slot (plus its own consumed handshake key), a second commit must return ExistingPendingCommit, clear restores the ability to commit, applying yields the canonical record of the epoch (C01 oracle), any epoch change leaves no pending commit, stale or losing commits for another epoch are rejected with the state unchanged, and detached secrets made in an older epoch must be refused with the state unchanged.",
            "trusted: the simulator's pending-commit model; which of two commits for the same epoch wins is the DS's choice and never asserted",
            "DESIGN.md §6.C11"),
    "C15": ("fault_enumeration",
            "fault enumeration inside deterministic simulation: for every library operation in a simulated history each individual storage call (group-state, key-package, PSK store) is made to fail in turn, attempt after attempt on the same member, then the operation is repeated fault-free and compared with a run that never saw a fault",
            "For every commit, apply_pending_commit, process_incoming_message (commit / proposal / application incl. late messages), join_group, external commit, load_group and write_to_storage in the sampled histories, call index 0,1,2,... of the operation's storage calls is failed cleanly, one failed attempt after the other: each must return Err, leave the member's complete state (H1) and the stored history / key-package store unchanged; the first attempt in which no fault fires is the fault-free execution, and for operations that do not write, the same operation re-run from the saved pre-operation member must end in the identical state. The enumeration is complete per operation instance (all call indices); histories are sampled. Clean failures only.",
            "trusted: H1 covers all member state; the crypto PRNG is rewound before every attempt (DESIGN §6.C15); one known finding (write_to_storage is not atomic across the two stores) is listed in known_findings.json",
            "DESIGN.md §6.C15"),
    "C02": ("exploration",
            "deterministic simulation with a recording crypto seam: every HPKE seal made while a simulated member builds a commit is attributed and compared with the copath resolutions of the new tree computed by the reference model; removed members' objects are kept alive and fed every later message",
            "Oracle A: for every commit built in every run the recorded HPKE recipient keys must be exactly (i) the keys in the resolutions of the committer's copath in the NEW tree (obtained by applying the commit on a clone; resolution by the independent reference tree model) minus leaves added by the commit, and (ii) the init keys of the key packages in the Welcome; never a key that sat at a removed leaf or on its blanked direct path, never an HPKE sender set-up. Oracle B: the group object of every removed party (removed by commit, by proposal, replaced through external commit) stays alive and is fed every later commit, proposal and application message: all must fail, its epoch must not move, and its epoch authenticator must never equal a later epoch's.",
            "trusted: reference tree parser / resolution (refmls.rs, checked against the library by the C08 tree-hash oracle), the recording wrapper around the crypto provider",
            "DESIGN.md §6.C02"),
    "C08": ("exploration",
            "deterministic simulation: after every epoch change every member's exported tree is re-hashed from scratch by an independent reference implementation and fed, with the member's GroupInfo, to a fresh external observer (the library's full joiner validation); leftmost-blank rule checked against the previous epoch's tree",
            "For every member that reaches an epoch (committer, receiver, Welcome joiner, external joiner, reloaded member): the exported node vector is parsed by the reference reader, its tree hash recomputed from the RFC definition must equal context().tree_hash, structural rules hold (no trailing blank, unmerged lists strictly increasing, inside the subtree, non-blank), leaves added by the commit occupy exactly the leftmost blanks of the previous tree after its removals, and (sampled 1 in 3) GroupInfo + tree pass ExternalClient::observe_group. Histories grow, shrink and regrow trees to 32 leaves with interior blanks and unmerged leaves (probes in evidence).",
            "trusted: refmls.rs (written from RFC 9420 §4, §7.8; sha2 crate)",
            "DESIGN.md §6.C08"),
    "C09": ("exploration",
            "deterministic simulation: after every epoch change each member's stored private keys (hook H3) are checked against its exported tree by sealing to the node's public key and opening with the stored key",
            "For every member and epoch: a leaf key exists; every stored direct-path key sits at a non-blank node and opens an HPKE ciphertext sealed to that node's public key; no key for blank nodes or beyond the root; after a commit with update path every non-blank node on the committer's direct path carries a key absent from the previous epoch's tree; once a member's leaf key changed, the old key bytes occur nowhere in its complete state (H1).",
            "trusted: hooks H1/H3, reference tree model for path positions",
            "DESIGN.md §6.C09"),
    "C05": ("exploration",
            "deterministic simulation of message streams under duplication, reordering, loss, generation gaps around the 1024 window and crash/reload of either side; recording crypto seam for global (key, nonce) uniqueness; per-sender ratchet-position model for accept / reject",
            "Streams of application and encrypted handshake messages from several senders are delivered in seeded permutations with duplicates and drops; gaps of 1, 5, 40, 1023, 1024, 1025 and 1030 generations are created by a burst whose last message overtakes the others. Oracle 1: every (key, nonce) pair passed to the provider's AEAD seal by any member of the world is unique, also after a crash that rolls a sender's ratchet back (reuse guard). Oracle 2: a receiver accepts a message iff it has not accepted it before and its generation is at most 1024 ahead of the receiver's position for that sender and key type (model), a duplicate or an out-of-window message is rejected with the complete member state unchanged, and everything inside the window still decrypts with the true sender and payload. Each content key / nonce and sender-data key / nonce is additionally compared with the reference secret tree (C13 model).",
            "trusted: the generation counters of the simulator's model (cross-checked by the reference key derivation agreeing with the recorded keys)",
            "DESIGN.md §6.C05"),
    "C13": ("exploration",
            "refinement against an independent reference model (RFC 9420 formulas on bare sha2/hmac) run in lock-step with every simulated epoch: inputs are the contexts, PSK lists, tree sizes and transcripts that real multi-party histories produce; joiner secrets are obtained by the harness opening the GroupSecrets of Welcomes itself",
            "For every epoch transition whose joiner secret the harness can obtain independently (it opens the joiner's GroupSecrets with the joiner's init key, or the commit has no path so the commit secret is zero): joiner secret = ExpandWithLabel(Extract(init[n-1], commit_secret)) with the commit secret walked up from the joiner's path secret through the reference tree; PSK secret chain from the PSK ids in GroupSecrets and the stored / resumption values; welcome key+nonce, epoch secret and the derived exporter, authentication, external, membership, init, resumption, sender-data and confirmation secrets vs every member's hook-H2 values; confirmation tag, confirmed and interim transcript hashes (public commits), membership tag of every public member message, epoch authenticator, export_secret for random label / context / length in {0,1,16,32,33,64,255}; for every PrivateMessage the content key, nonce (modulo reuse guard) and the sender-data key / nonce from the ciphertext sample vs the reference secret tree for (tree size, leaf, type, generation). Suites 1-3 (SHA-256); other hashes via C14's provider runs.",
            "trusted: sha2 / hmac crates, my reading of RFC 9420 (a common-mode error in both the library and the reference is the residual risk; the reference recomputes 9205 values of the IETF-format vectors in /repo/mls-rs/test_data at every start and a disagreement is a harness error); HPKE open of GroupSecrets uses the provider primitive",
            "DESIGN.md §6.C13"),
    "C18": ("exploration",
            "deterministic simulation with divergent PSK stores: per party and PSK id the common value, another value or nothing (seeded); commits inject 0-3 external PSKs and resumption PSKs of past epochs inside and beyond each member's retention window, by value and by reference; PSK-holder + retention model predicts who must follow",
            "For every commit the model derives the PSK list (by value, plus by-reference proposals the committer can resolve) and for every receiver whether it holds the committer's value of each external PSK and still retains each referenced past epoch (retention model shared with C19, member at that epoch on the same device): holders must accept and reach the canonical epoch state (C01 oracle), everybody else must reject with its complete state unchanged (H1) and is then counted as legitimately stuck; joiners need the same external PSKs and can never use a Welcome that needs a resumption PSK. The C13 reference key schedule runs in these worlds too: the PreSharedKeyIDs are read from the commit itself (by value and by reference, in proposal order) and from the Welcome's GroupSecrets, must be the same list, and every epoch secret must equal the reference PSK chain over exactly those ids, nonces and the committer's values - so value, id, nonce and order each enter every secret. Forged commits (signed by a member, real membership key) that inject a duplicate PSK id or a resumption PSK naming another group with the current epoch number must be stopped by a PSK rule, not by the confirmation tag.",
            "trusted: the PSK-holder and retention models; cases the model cannot decide (a by-reference PSK the committer may have dropped) are 'may' and only safety is checked",
            "DESIGN.md §6.C18"),
    "C19": ("exploration",
            "deterministic simulation with delayed delivery: application messages are withheld by the simulated delivery service for 0..R+3 epochs while the group advances, under write patterns from 'after every epoch' to 'never', crash/reload, retention R in {1,2,3,5}, both storage providers mirrored, sender leaves removed / reused / re-keyed in between; retention model decides accept / reject",
            "A late message of epoch e is decrypted (true sender index, payload, AAD) iff e is among the R most recent prior epochs as of the receiver's last write or was entered since that write (model: set on disk after the last write, trimmed to R, plus epochs entered since; a crash discards the second part), the receiver was a member at e on this device, the generation is inside the window and not yet used, and the sender's leaf in the receiver's current tree still carries the signature key it had at e; a vacated or reused leaf must be rejected; a rotated signature key is 'may'. After every write the prior-epoch ids readable through GroupStateStorage::epoch must equal the model's set exactly (older secrets are gone) on both providers; rejected late messages leave the complete state unchanged. One third of the runs keep two groups per party in the same stores (a write for one group must not disturb the other).",
            "trusted: the retention model (DESIGN §6.C19), canonical rosters for the sender-leaf rule",
            "DESIGN.md §6.C19"),
    "C07": ("exploration",
            "deterministic simulation of joins: Welcome joiners (tree in extension / out of band, single / per-member Welcome, with and without path, with PSKs, several joiners, interior blanks) and external joiners at every reachable group state; key-package store watched around the joiner's first write; mismatched Welcome / tree / GroupInfo offered as faults; returning members on the same storage",
            "Every joiner's first epoch state must equal the canonical record of that epoch (C01 oracle) and its exported tree must pass the C08 oracles; it immediately sends a message every member must decrypt and takes part in later commits (bounded liveness). The key package it joined with is still in its store before its first write_to_storage and gone afterwards. Injected mismatches must never yield a group: a Welcome offered to a party none of whose key packages it addresses, a Welcome (without tree extension) offered with the tree of another epoch, a stale GroupInfo offered with the current tree to the external-commit builder. One quarter of the runs let removed members return on the storage that still holds their earlier membership (the recorded finding).",
            "trusted: the simulator's membership model; last-resort key packages are not exercised (feature not enabled in the build under test); known finding D10 listed in known_findings.json",
            "DESIGN.md §6.C07"),
    "C16": ("exploration",
            "deterministic simulation with an external observer as a node: created from the GroupInfo of a seeded epoch with every max_epoch_jitter setting (unset, 0, 1, 3, epoch-1, epoch, epoch+1, 1000), fed the public handshake traffic in delivery-service order plus application ciphertexts of any age, snapshot / restore at seeded points, corrupted copies as faults, proposals issued as external sender; a third of the observers run with cache_proposals(false) and get accepted proposals handed back by the application (insert_proposal_from_message); a Byzantine member offers commits that refer to proposals of closed epochs",
            "After every commit the observer's group context, roster and exported tree must equal the members' canonical record; it must accept every genuine public proposal and commit in DS order; ciphertexts of epochs inside [epoch - jitter, epoch] must be let through and older ones rejected (checked semantically, and the simulator is built with overflow checks so arithmetic wrap is a panic); bit flips and truncations of public messages must be rejected wherever the change is checkable without group secrets (i.e. outside the confirmation and membership tags) and leave the observer's snapshot unchanged; snapshot -> bytes -> load_group must give an identical observer; Add / Remove proposals it signs as a listed external sender must be accepted and committed by members (C01 oracle on the resulting epochs). After every epoch change the observer's proposal cache (get_cached_proposals) must be empty in both cache modes, and a commit correctly signed by a member that refers to a proposal of an earlier epoch must be rejected. Never a panic.",
            "trusted: c13::public_layout to decide which byte ranges an observer can check; public (unencrypted) handshake configuration only, because an observer cannot follow encrypted handshake traffic",
            "DESIGN.md §6.C16"),
    "C17": ("exploration",
            "deterministic simulation: old-group histories (sparse trees, identity changes) end in a re-init commit; successor creation and joining is then driven with the member set equal / strict subset / superset / one identity replaced, in shuffled order, with group-id and cipher-suite changes; branches are created at seeded points from subsets and supersets of the current members and joined by members at the same and at another epoch and by outsiders",
            "After the re-init commit every member's old group must refuse to build further commits (and the simulated delivery service accepts none). ReinitClient::commit must succeed iff the key packages belong to exactly the old members; on success every old member joins through ReinitClient::join with a state (context, tree, authenticator) equal to the creator's at epoch 1, and a party without the old group state cannot join with the same Welcome. Group::branch must succeed iff the chosen parties are current members; each of them at the creator's epoch joins through join_subgroup with equal state; a member sitting at another epoch (other resumption secret) and an outsider must be refused. A look-alike successor / sub-group created from scratch with the announced group id, suite and extensions, the members' own key packages and epoch 1 - whose Welcome carries no resumption PSK - must be refused by ReinitClient::join and join_subgroup.",
            "trusted: canonical rosters of the old group; mismatched-Welcome variants beyond 'no old state', 'resumption secret of another epoch' and 'no resumption PSK at all' are not generated",
            "DESIGN.md §6.C17"),
    "C14": ("exploration",
            "deterministic simulation of mixed-provider groups (each simulated member draws OpenSSL, AWS-LC, RustCrypto or deterministic RustCrypto) with an in-situ differential crypto seam: every deterministic primitive call the protocol makes is evaluated on a second provider and compared; randomised outputs of one provider are consumed by the others through the protocol; X.509 validator cases (chain shape, defect, validation time) are further seeded actions of the same runs",
            "PARTIAL CLAIM (two known findings on X.509 verdicts are listed in known_findings.json). Decided: members using different providers form one working group on suites 1, 2, 3 and 7 (C01 agreement, C08 tree and bounded-liveness oracles over the mixed group: signatures, HPKE ciphertexts and set-ups, Welcome and PSK material made by one provider are consumed by the others); on every hash, MAC, KDF extract / expand, AEAD seal / open, deterministic KEM derivation, signature-key derivation, HPKE open (base and PSK mode), HPKE receiver set-up, KEM public-key validation and signature verification the protocol performs - including the malformed inputs that corrupted traffic pushes into verify / open / validate - the primary and the cross provider must return identical bytes or the identical accept / reject decision; every signature the primary makes must verify under the cross provider and every generated KEM key must open what the cross provider seals to it. X.509: for generated chains (0-2 intermediates, P-256 / Ed25519) with one injected defect (none, root appended, wrong issuer signature, missing intermediate, swapped intermediates, non-CA issuer, unknown root) and a validation time from the simulated clock on and around every validity boundary, the three validators must give the same verdict, the verdict of an RFC 5280 model wherever that is definite, and the leaf's public key. NOT decided here: input lengths the protocol never produces (a pure-function sweep, outside this family); X509IdentityProvider inside a running group.",
            "trusted: the differential wrapper (crypto.rs); runs on OpenSSL / AWS-LC are not bit-reproducible (their DRBGs), the replay file reproduces the schedule and, for deterministic primitives, the disagreement",
            "DESIGN.md §6.C14"),
    "C12": ("exploration",
            "deterministic simulation with corruption faults at the transport and storage seams: every byte string the library hands to the simulated network or disk is round-tripped, and seeded corrupted copies (bit flip, truncation, huge and non-minimal length prefixes, out-of-range discriminants, appended tails, random strings, flipped stored bytes) are decoded under catch_unwind and a counting global allocator",
            "PARTIAL CLAIM. Decided, for every value that crosses a seam in a simulated run - MlsMessage of every kind (commit, proposal, application, Welcome, GroupInfo, key package; public and private), exported trees, CommitSecrets, ExternalSnapshot, stored snapshots and epoch records; group sizes pushed past the 64 B and 16 KiB varint boundaries: decode(encode(v)) re-encodes to the same bytes, consumes exactly the bytes written, and the reported encoded length equals the byte count. For every corrupted copy: no panic, peak allocation during the decode <= 1024 x input + 64 KiB, and if it decodes the value re-encodes to exactly the consumed prefix (which also rules out non-minimal varints and prefixes reaching beyond the input). A flipped stored byte never makes load_group panic or over-allocate. NOT decided: 'for every value of a wire type whatsoever' - structural generation of arbitrary values of all derive-macro types is input generation without schedule or fault and is outside this family.",
            "trusted: the counting allocator (thread-local, only active around the decode call); one known finding (non-canonical map order accepted in ExternalSnapshot) listed in known_findings.json",
            "DESIGN.md §6.C12"),
    "C10": ("exploration",
            "deterministic simulation with proposal templates of known verdict (valid, or invalid for exactly one stated reason) by value and by reference, receivers that cached the proposals in different orders or miss one, a forger (B-FORGE) that hand-writes correctly signed and MACed commits carrying invalid proposal sets, and a Byzantine member (B-FORGE-UPDATE) whose correctly signed Update proposals re-use another member's HPKE key; members propose several Updates per epoch; a directed update-clash scenario puts all of these into one commit with every member holding the same cache",
            "(1) Every commit an honest member builds is accepted by every member holding the referenced proposals (base liveness oracle), all members report the same applied proposals for a commit, and a receiver whose cache equals the committer's reports the same unused proposals; a member missing a referenced proposal rejects with its state unchanged and succeeds after redelivery. (2) By-value templates - removal of the committer, double removal, unknown PSK, the same key package twice, a credential the (common) identity policy rejects, re-init mixed with another proposal - make CommitBuilder::build fail with the member's state unchanged; the same violations arriving by reference (rejected credential, unknown PSK, conflicting updates / removals, a second Update of one leaf, an Update whose leaf collides in the tree) are dropped, reported as unused and the commit is still accepted by all. (3) Forged public commits, signed with a real member's key under the genuine group context and MACed with the epoch's real membership key (hook H2), carrying remove-committer, double remove, two group-context-extensions, re-init plus another proposal, duplicate PSK id, removal of a non-member or an Add of an existing member, must be rejected by a proposal rule - not merely by the (random) confirmation tag - with the receiver unchanged; a forged commit with one valid Add must reach the confirmation-tag check (sanity of the forger).",
            "trusted: the forger's wire writer (validated in every run by the valid-Add sanity template); templates not generated: capability / required-capabilities mismatches, expired key packages",
            "DESIGN.md §6.C10"),
}

NOT_APPLICABLE = {
    "C20": "pure integer functions of the tree size and node index: no schedule, clock, I/O, fault or second party for a simulator to control; an exhaustive sweep against the recursive RFC definitions is enumeration, not deterministic simulation (DESIGN.md §6.C20)",
}

PENDING_REASON = "not claimed yet: the scenario for this property is still being built in this framework (see DESIGN.md §10 build order)"

ALL = ["C%02d" % i for i in range(1, 21)]


def main():
    checks = []
    for pid in ALL:
        if pid not in CLAIMED:
            continue
        level, technique, text, note, ref = CLAIMED[pid]
        checks.append({
            "property_id": pid,
            "quick_cmd": f"./check {pid}",
            "thorough_cmd": f"./check {pid} --tier thorough",
            "evidence_file": f"/verif/evidence/{pid}.json",
            "replay_cmd_template": f"./check {pid} --replay {{path}}",
            "engine": "mlsim",
            "level_claimed": {"category": level, "text": text, "design_ref": ref},
            "level_note": note,
            "technique": technique,
        })
    na = []
    for pid in ALL:
        if pid in CLAIMED:
            continue
        na.append({"property_id": pid, "reason": NOT_APPLICABLE.get(pid, PENDING_REASON)})
    m = {
        "version": 1,
        "setup_cmd": "cd /verif/sim && cp /repo/Cargo.lock Cargo.lock && CARGO_NET_OFFLINE=true cargo build --release --offline",
        "hooks": {
            "guard": "cargo feature awslabs_mls_rs_verif on crate mls-rs (off by default)",
            "enable": "/verif/sim/Cargo.toml path-depends on /repo/mls-rs with features = [\"external_client\", \"awslabs_mls_rs_verif\", \"self_remove_proposal\"]; every ./check rebuilds from /repo's working tree",
            "baseline_off_cmd": "cd /repo && cargo nextest run --workspace --no-fail-fast --tool-config-file pb:/w/lib/nextest.toml --profile pb --test-threads 8 --offline || cargo test --workspace --no-fail-fast --offline",
            "source_commits": HOOK_COMMITS,
            "add_only": True,
        },
        "engines": [{
            "name": "mlsim",
            "path": "/verif/sim",
            "serves_properties": sorted(CLAIMED),
            "kind_free_text": "deterministic discrete-event simulator (Rust, one process): simulated delivery service, clock, storage, identity and crypto-randomness seams around real mls-rs members; seeded scheduler and fault injector; delta-debugging minimiser; replay files",
        }],
        "checks": checks,
        "not_applicable": na,
        "notes": "VERIF_SEED selects the sample (default fixed); VERIF_RUNS / VERIF_BUDGET_S / VERIF_JOBS bound a batch. Exit 0 held, 1 violation (replay reproduced in a fresh process), 2 harness error.",
    }
    json.dump(m, open("/verif/MANIFEST.json", "w"), indent=1)
    print("claimed:", sorted(CLAIMED), "not claimed:", [x["property_id"] for x in na])


if __name__ == "__main__":
    main()
