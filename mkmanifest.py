#!/usr/bin/env python3
"""Regenerates /verif/MANIFEST.json from the table below (keeps it valid at all times)."""
import json, subprocess

HOOK_COMMITS = [l.split()[0] for l in subprocess.run(
    ["git", "-C", "/repo", "log", "--format=%h %s"], capture_output=True, text=True).stdout.splitlines()
    if "verif hook" in l]

# id -> (level, technique, level text, level note, design ref)
CLAIMED = {
    "C01": ("exploration",
            "deterministic simulation: seeded schedules of member operations, delivery-service decisions (races, reordering, duplication, loss) and crashes; agreement invariant against the first member to reach each epoch",
            "Every simulated run drives real mls-rs members (2-40 parties) through a seeded history of commits, proposals, external commits, identity changes, removals and re-adds under a simulated delivery service; whenever a member reaches an epoch its context, roster, exported tree, epoch authenticator and three exported secrets must equal those of the first member that reached it, epochs must advance by exactly one, and every application message delivered in its epoch must decrypt with the true sender, payload and AAD. After faults stop, everything outstanding is delivered and one more commit must be accepted by all live members (bounded liveness). Sampled, not exhaustive.",
            "trusted: the simulator's membership/pending model (decides which deliveries must succeed), RustCrypto with PRNG-driven key generation; OpenSSL/AWS-LC mixes are covered by C14",
            "DESIGN.md §6.C01"),
    "C03": ("exploration",
            "deterministic simulation with network corruption faults (bit flips, truncations, splices of two valid messages, stale and losing commits) and a Byzantine member (honest library + commit-modifier hook signing structurally invalid update paths / leaves / trees)",
            "On top of the C01 world, corrupted copies of every message kind the delivery service carries are delivered before or after the genuine copy, and a current member signs commits with a too short / too long / permuted update path, foreign keys, a wrong parent hash or an invalid leaf; every such delivery must return an error (never a panic, never acceptance), genuine deliveries must still report the true sender, payload and AAD, and the group must still converge after the faults stop. Sampled positions and histories.",
            "trusted: the simulator's notion of which mutated bytes are 'modified' (any byte difference), the H4 hook producing the structurally invalid commits; forging PrivateMessages and Welcome/GroupInfo corruption for joiners are covered under C07/C16",
            "DESIGN.md §6.C03"),
    "C04": ("exploration",
            "deterministic simulation: complete member state (hook H1, per component) captured before every delivery / build that returns an error and compared afterwards; rejected inputs from corruption, wrong epoch, missing proposals, Byzantine commits failing at different pipeline stages",
            "Every delivery or commit/proposal build that returns Err is bracketed by a component-wise snapshot of the complete member state (context, proposal caches, tree, private tree, epoch secrets incl. ratchets, key schedule, pending updates, pending commit, signer, pending prior-epoch records); any difference is a violation, the genuine copy of a rejected message must still be accepted afterwards, and the group must still converge (bounded liveness). A probe records which error class each rejection came from so evidence shows the stages reached.",
            "trusted: hook H1 encodes all state of a member; the cache-fill rule for prior-epoch records (DESIGN §5)",
            "DESIGN.md §6.C04"),
}

NOT_APPLICABLE = {
    "C20": "pure integer functions of the tree size and node index: no schedule, clock, I/O, fault or second party for a simulator to control; an exhaustive sweep against the recursive RFC definitions is enumeration, not deterministic simulation (DESIGN.md §6.C20)",
}

PENDING_REASON = "not claimed yet: the scenario for this property is still being built in this framework (see DESIGN.md §10 build order)"

ALL = ["C%02d" % i for i in range(1, 21)]


def main():
    checks = []
    for pid in ALL:
        if pid not in CLAIMED:
            continue
        level, technique, text, note, ref = CLAIMED[pid]
        checks.append({
            "property_id": pid,
            "quick_cmd": f"./check {pid}",
            "thorough_cmd": f"./check {pid} --tier thorough",
            "evidence_file": f"/verif/evidence/{pid}.json",
            "replay_cmd_template": f"./check {pid} --replay {{path}}",
            "engine": "mlsim",
            "level_claimed": {"category": level, "text": text, "design_ref": ref},
            "level_note": note,
            "technique": technique,
        })
    na = []
    for pid in ALL:
        if pid in CLAIMED:
            continue
        na.append({"property_id": pid, "reason": NOT_APPLICABLE.get(pid, PENDING_REASON)})
    m = {
        "version": 1,
        "setup_cmd": "cd /verif/sim && cp /repo/Cargo.lock Cargo.lock && CARGO_NET_OFFLINE=true cargo build --release --offline",
        "hooks": {
            "guard": "cargo feature awslabs_mls_rs_verif on crate mls-rs (off by default)",
            "enable": "/verif/sim/Cargo.toml path-depends on /repo/mls-rs with features = [\"external_client\", \"awslabs_mls_rs_verif\", \"self_remove_proposal\"]; every ./check rebuilds from /repo's working tree",
            "baseline_off_cmd": "cd /repo && cargo nextest run --workspace --no-fail-fast --tool-config-file pb:/w/lib/nextest.toml --profile pb --test-threads 8 --offline || cargo test --workspace --no-fail-fast --offline",
            "source_commits": HOOK_COMMITS,
            "add_only": True,
        },
        "engines": [{
            "name": "mlsim",
            "path": "/verif/sim",
            "serves_properties": sorted(CLAIMED),
            "kind_free_text": "deterministic discrete-event simulator (Rust, one process): simulated delivery service, clock, storage, identity and crypto-randomness seams around real mls-rs members; seeded scheduler and fault injector; delta-debugging minimiser; replay files",
        }],
        "checks": checks,
        "not_applicable": na,
        "notes": "VERIF_SEED selects the sample (default fixed); VERIF_RUNS / VERIF_BUDGET_S / VERIF_JOBS bound a batch. Exit 0 held, 1 violation (replay reproduced in a fresh process), 2 harness error.",
    }
    json.dump(m, open("/verif/MANIFEST.json", "w"), indent=1)
    print("claimed:", sorted(CLAIMED), "not claimed:", [x["property_id"] for x in na])


if __name__ == "__main__":
    main()
