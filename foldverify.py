#!/usr/bin/env python3
"""fold /tmp/seeded_out/<id>/verify.summary (written by seedverify.sh) into /verif/seeded/<id>/meta.json"""
import json, os, re, sys
for i in sys.argv[1:]:
    vs = '/tmp/seeded_out/%s/verify.summary' % i
    dst = '/verif/seeded/%s/meta.json' % i
    if not (os.path.exists(vs) and os.path.exists(dst)):
        print(i, 'missing'); continue
    t = open(vs).read()
    parts = t.split('== existing + demo tests')
    def brief(p):
        return {'failed_tests': sorted(set(re.findall(r'^test (\S+) \.\.\. FAILED', p, re.M))), 'results': re.findall(r'test result: (.*?);', p)}
    m = json.load(open(dst))
    m['verified_in_scratch_worktree'] = {
        'with_change': [brief(p) for p in parts if 'WITH change' in p.split('\n')[0]],
        'without_change': [brief(p) for p in parts if 'WITHOUT change' in p.split('\n')[0]],
        'note': 'seedverify.sh: patch+demo applied -> existing tests pass except the demonstration (and interop_passive_client, whose data file is empty in the pinned tree); patch reverted -> demonstration passes'}
    json.dump(m, open(dst, 'w'), indent=1)
    print(i, m['verified_in_scratch_worktree']['with_change'], '|', m['verified_in_scratch_worktree']['without_change'])
