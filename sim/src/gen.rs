//! Swarm configuration presets per property and the seeded action generator (the scheduler).

use crate::crypto::ProviderKind;
use crate::prng::{hash_str, mix, Prng};
use crate::seams::StorageKind;
use crate::types::*;
use crate::world::*;

fn wv(v: &[(&str, u32)]) -> Vec<(String, u32)> {
    v.iter().map(|(a, b)| (a.to_string(), *b)).collect()
}
fn sv(v: &[&str]) -> Vec<String> {
    v.iter().map(|s| s.to_string()).collect()
}

/// the swarm configuration of run number `i` of a batch: every knob is a draw from the run seed
pub fn preset(property: &str, tier: &str, run_seed: u64) -> SwarmCfg {
    let mut r = Prng::new(mix(&[run_seed, hash_str(property), 0xcf6]));
    let thorough = tier == "thorough";
    let det_suites: [u16; 3] = [1, 3, 2];
    let mut cfg = SwarmCfg {
        property: property.to_string(),
        scenario: "base".into(),
        n_parties: r.range(2, if thorough { 12 } else { 8 }) as usize,
        steps: r.range(20, if thorough { 90 } else { 60 }) as u32,
        suite: if r.chance(3, 4) { 1 } else { *r.pick(&det_suites) },
        providers: vec![ProviderKind::Det],
        cross: None,
        storage: StorageKind::Mem,
        retention: *r.pick(&[1u64, 2, 3, 5]),
        encrypt_handshake: r.chance(1, 2),
        padding: r.below(3) as u8,
        write_every: r.below(3) as u8,
        weights: vec![],
        faults: vec![],
        oracles: vec![],
        same_storage_rejoin: false,
        knobs: vec![],
    };
    // base workload mix, varied per run (swarm testing): each kind is dropped with some probability
    let mut base = vec![
        ("commit", 10u32),
        ("propose", 8),
        ("ds_pick", 14),
        ("deliver_commit", 30),
        ("join", 16),
        ("deliver", 18),
        ("send_app", 10),
        ("write", 6),
        ("tick", 2),
        ("clear_pending", 1),
        ("ext_commit", 2),
    ];
    for (k, w) in base.iter_mut() {
        if !matches!(*k, "commit" | "ds_pick" | "deliver_commit" | "join") && r.chance(1, 5) {
            *w = 0;
        } else if r.chance(1, 3) {
            *w = (*w * r.range(1, 4) as u32).max(1);
        }
    }
    cfg.weights = wv(&base);
    // application rule knob: do custom proposals require an update path? (the same for every member of a run)
    cfg.knobs.push(("custom-path".into(), r.below(2)));
    match property {
        "C01" => {
            cfg.oracles = sv(&["agreement", "path-required", "private-keys"]);
            cfg.faults = sv(&["N-DROP", "N-DUP", "N-REORD", "N-RACE", "N-STALE"]);
            cfg.weights.push(("crash".into(), if r.chance(1, 2) { 1 } else { 0 }));
            cfg.weights.push(("reload".into(), 8));
            cfg.weights.push(("stale_commit".into(), 2));
            cfg.weights.push(("nm_propose".into(), 2));
            cfg.storage = *r.pick(&[StorageKind::Mem, StorageKind::Mem, StorageKind::Sql]);
            if r.chance(1, 6) {
                cfg.scenario = "large-tree".into();
                cfg.n_parties = r.range(12, if thorough { 40 } else { 24 }) as usize;
                cfg.steps += 40;
            }
        }
        _ => {}
    }
    crate::scenarios::adjust(&mut cfg, tier, &mut r);
    cfg
}

pub struct Gen;

impl Gen {
    /// pick the next action from the current world state
    pub fn next(w: &mut World) -> Option<Action> {
        if w.groups.is_empty() {
            return None;
        }
        // worlds with several groups: each step works on one of them
        let g = if w.groups.len() > 1 { w.prng.usize_below(w.groups.len()) } else { 0 };
        w.ext.cur_g = g;
        let n = w.parties.len();
        let latest = w.groups[g].log.len() as u64;
        let live = w.live_members(g);
        let mut kinds: Vec<(&str, u32)> = vec![];
        let cfgw = |k: &str| w.cfg.weight(k);

        let can_commit: Vec<usize> = live
            .iter()
            .copied()
            .filter(|p| {
                let m = &w.parties[*p].mems[g];
                m.pending.is_none() && w.epoch_of(*p, g) == Some(latest) && w.groups[g].reinit_at.is_none()
            })
            .collect();
        let behind: Vec<usize> = live
            .iter()
            .copied()
            .filter(|p| w.epoch_of(*p, g).map(|e| e < latest).unwrap_or(false))
            .collect();
        let invited: Vec<usize> = (0..n)
            .filter(|p| w.mem_ref(*p, g).map(|m| m.welcome.is_some()).unwrap_or(false) && !w.parties[*p].crashed)
            .collect();
        let with_inbox: Vec<usize> = live
            .iter()
            .copied()
            .filter(|p| !w.parties[*p].mems[g].inbox.is_empty())
            .collect();
        let crashed: Vec<usize> = (0..n)
            .filter(|p| {
                w.mem_ref(*p, g)
                    .map(|m| m.group.is_none() && matches!(m.status, Status::Member | Status::Stuck(_)))
                    .unwrap_or(false)
            })
            .collect();
        let has_cands = w.groups[g].candidates.get(&latest).map(|c| !c.is_empty()).unwrap_or(false);
        let with_pending: Vec<usize> = live
            .iter()
            .copied()
            .filter(|p| {
                let m = &w.parties[*p].mems[g];
                m.pending.map(|c| !w.groups[g].log.contains(&c)).unwrap_or(false)
            })
            .collect();
        let outsiders: Vec<usize> = (0..n)
            .filter(|p| {
                let st = w.mem_ref(*p, g).map(|m| m.status.clone()).unwrap_or(Status::Never);
                matches!(st, Status::Never | Status::Removed) && !w.parties[*p].crashed
            })
            .collect();
        let outsiders: Vec<usize> = match w.cfg.knob("banned") {
            Some(_) => outsiders.into_iter().filter(|q| *q != n - 1).collect(),
            None => outsiders,
        };
        let stuck: Vec<usize> = (0..n)
            .filter(|p| {
                matches!(w.mem_ref(*p, g).map(|m| m.status.clone()), Some(Status::Stuck(_)))
                    && w.groups[g].members.get(&latest).map(|m| m.contains_key(p)).unwrap_or(false)
            })
            .collect();

        if !can_commit.is_empty() {
            kinds.push(("commit", cfgw("commit")));
            kinds.push(("propose", cfgw("propose")));
        }
        if has_cands {
            kinds.push(("ds_pick", cfgw("ds_pick")));
        }
        if !behind.is_empty() {
            kinds.push(("deliver_commit", cfgw("deliver_commit")));
        }
        if !invited.is_empty() {
            kinds.push(("join", cfgw("join")));
        }
        if !with_inbox.is_empty() {
            kinds.push(("deliver", cfgw("deliver")));
        }
        if !live.is_empty() {
            kinds.push(("send_app", cfgw("send_app")));
            kinds.push(("write", cfgw("write")));
            // a crash with unwritten private sends rolls the sender ratchet back (the application is expected
            // to persist before sending); only scenarios that ask for it explore that
            let crashable = w.cfg.fault("crash-unwritten-sends")
                || live.iter().any(|p| w.parties[*p].mems.iter().all(|m| m.unwritten_sends == 0));
            if crashable {
                kinds.push(("crash", cfgw("crash")));
            }
            kinds.push(("stale_commit", cfgw("stale_commit")));
        }
        if !crashed.is_empty() {
            kinds.push(("reload", cfgw("reload")));
        }
        if !with_pending.is_empty() {
            kinds.push(("clear_pending", cfgw("clear_pending")));
        }
        if (!outsiders.is_empty() || !stuck.is_empty()) && !live.is_empty() {
            kinds.push(("ext_commit", cfgw("ext_commit")));
        }
        kinds.push(("tick", cfgw("tick").max(1)));
        crate::scenarios::extra_kinds(w, &mut kinds);

        let weights: Vec<u32> = kinds.iter().map(|k| k.1).collect();
        if weights.iter().all(|x| *x == 0) {
            return None;
        }
        let kind = kinds[w.prng.weighted(&weights)].0;
        let r = &mut w.prng;
        Some(match kind {
            "commit" => {
                let p = *r.pick(&can_commit);
                Action::Commit {
                    p,
                    g,
                    spec: Gen::commit_spec(w, p, g),
                }
            }
            "propose" => {
                let p = *r.pick(&can_commit);
                Action::Propose {
                    p,
                    g,
                    spec: Gen::prop_spec(w, p, g),
                }
            }
            "ds_pick" => Action::DsPick {
                g,
                choice: r.below(8) as u32,
            },
            "deliver_commit" => Action::DeliverCommit {
                p: *r.pick(&behind),
                g,
                own_apply: r.chance(1, 2),
            },
            "join" => Action::Join {
                p: *r.pick(&invited),
                g,
            },
            "deliver" => {
                let p = *r.pick(&with_inbox);
                let reorder = w.cfg.fault("N-REORD") && r.chance(1, 3);
                let fate = if w.cfg.fault("N-DUP") && r.chance(1, 12) {
                    Fate::Dup
                } else if w.cfg.fault("N-DROP") && r.chance(1, 15) {
                    Fate::Drop
                } else {
                    Fate::Normal
                };
                Action::Deliver {
                    p,
                    g,
                    k: if reorder { r.below(16) as u32 } else { 0 },
                    fate,
                }
            }
            "send_app" if w.cfg.knob("boundary-sizes").is_some() => Action::SendApp {
                // lengths on both sides of the variable-length-integer boundaries (1 -> 2 and 2 -> 4 bytes of prefix)
                p: *r.pick(&live),
                g,
                len: *r.pick(&[0u16, 5, 62, 63, 64, 65, 200, 16382, 16383, 16384, 16385]),
                aad_len: *r.pick(&[0u8, 0, 62, 63, 64, 65]),
            },
            "send_app" => Action::SendApp {
                p: *r.pick(&live),
                g,
                len: *r.pick(&[0u16, 1, 5, 32, 200, 1000]),
                aad_len: *r.pick(&[0u8, 0, 3, 40]),
            },
            "write" => Action::Write {
                p: *r.pick(&live),
                g,
            },
            "crash" => {
                let ok: Vec<usize> = live
                    .iter()
                    .copied()
                    .filter(|p| {
                        w.cfg.fault("crash-unwritten-sends")
                            || w.parties[*p].mems.iter().all(|m| m.unwritten_sends == 0)
                    })
                    .collect();
                Action::Crash { p: *w.prng.pick(&ok) }
            }
            "reload" => Action::Reload {
                p: *r.pick(&crashed),
                g,
            },
            "clear_pending" => Action::ClearPending {
                p: *r.pick(&with_pending),
                g,
            },
            "stale_commit" => Action::StaleCommit {
                p: *r.pick(&live),
                g,
                k: r.below(64) as u32,
            },
            "ext_commit" => {
                let resync = !stuck.is_empty() && (outsiders.is_empty() || r.chance(1, 2));
                let p = if resync { *r.pick(&stuck) } else { *r.pick(&outsiders) };
                Action::ExtCommit {
                    p,
                    g,
                    remove_old: resync,
                    psk: None,
                }
            }
            "tick" => Action::Tick {
                dt: *r.pick(&[1u32, 10, 60, 600]),
            },
            other => return crate::scenarios::extra_action(w, other),
        })
    }

    pub fn commit_spec(w: &mut World, p: usize, g: usize) -> CommitSpec {
        let n = w.parties.len();
        let latest = w.groups[g].log.len() as u64;
        let members: Vec<usize> = w.groups[g]
            .members
            .get(&latest)
            .map(|m| m.keys().copied().collect())
            .unwrap_or_default();
        let outsiders: Vec<usize> = (0..n)
            .filter(|q| {
                !members.contains(q)
                    && matches!(
                        w.mem_ref(*q, g).map(|m| m.status.clone()).unwrap_or(Status::Never),
                        Status::Never | Status::Removed
                    )
            })
            .collect();
        let banned = w.cfg.knob("banned").map(|_| n - 1);
        let outsiders: Vec<usize> = outsiders.into_iter().filter(|q| Some(*q) != banned).collect();
        let r = &mut w.prng;
        let mut spec = CommitSpec {
            ratchet_tree_ext: r.chance(2, 3),
            single_welcome: r.chance(1, 2),
            path_required: r.chance(1, 3),
            oob_tree: r.chance(1, 6),
            allow_ext: r.chance(1, 2),
            aad_len: *r.pick(&[0u8, 0, 7]),
            ..Default::default()
        };
        // grow while small, otherwise mixed
        let small = members.len() < 3;
        let n_add = if outsiders.is_empty() {
            0
        } else if small {
            r.range(1, 2)
        } else {
            *r.pick(&[0u64, 0, 1, 1, 2, 3])
        };
        let mut outs = outsiders.clone();
        r.shuffle(&mut outs);
        spec.adds = outs.into_iter().take(n_add as usize).collect();
        let n_rem = if members.len() <= 2 {
            0
        } else {
            *r.pick(&[0u64, 0, 0, 1, 1, 2])
        };
        let mut mem2: Vec<usize> = members.iter().copied().filter(|q| *q != p).collect();
        r.shuffle(&mut mem2);
        spec.removes = mem2.into_iter().take(n_rem as usize).collect();
        if r.chance(1, 8) {
            spec.new_identity = true;
        }
        if r.chance(1, 8) {
            spec.gce = Some(r.below(200) as u8);
        }
        if r.chance(1, 10) {
            spec.custom = Some(r.below(200) as u8);
        }
        if r.chance(1, 10) {
            spec.leaf_ext = Some(r.below(200) as u8);
        }
        crate::scenarios::adjust_commit(w, p, g, &mut spec);
        spec
    }

    pub fn prop_spec(w: &mut World, p: usize, g: usize) -> PropSpec {
        let n = w.parties.len();
        let latest = w.groups[g].log.len() as u64;
        let members: Vec<usize> = w.groups[g]
            .members
            .get(&latest)
            .map(|m| m.keys().copied().collect())
            .unwrap_or_default();
        let outsiders: Vec<usize> = (0..n)
            .filter(|q| {
                !members.contains(q)
                    && matches!(
                        w.mem_ref(*q, g).map(|m| m.status.clone()).unwrap_or(Status::Never),
                        Status::Never | Status::Removed
                    )
            })
            .collect();
        let others: Vec<usize> = members.iter().copied().filter(|q| *q != p).collect();
        let banned = w.cfg.knob("banned").map(|_| n - 1);
        let outsiders: Vec<usize> = outsiders.into_iter().filter(|q| Some(*q) != banned).collect();
        let r = &mut w.prng;
        let mut opts: Vec<u32> = vec![
            if outsiders.is_empty() { 0 } else { 5 },
            4,
            if others.len() >= 2 { 3 } else { 0 },
            1,
            1,
            if others.is_empty() { 0 } else { 1 },
        ];
        if let Some(s) = crate::scenarios::prop_spec_override(w, p, g, &mut opts) {
            return s;
        }
        let r = &mut w.prng;
        match r.weighted(&opts) {
            0 => PropSpec::Add {
                q: *r.pick(&outsiders),
            },
            1 => PropSpec::Update {
                new_identity: r.chance(1, 4),
            },
            2 => PropSpec::Remove { q: *r.pick(&others) },
            3 => PropSpec::Gce {
                val: r.below(200) as u8,
            },
            4 => PropSpec::Custom {
                val: r.below(200) as u8,
            },
            _ if cfg!(feature = "self_remove") => PropSpec::SelfRemove,
            _ => PropSpec::Update { new_identity: false },
        }
    }

    /// After the fault phase: deliver everything outstanding, reload crashed parties, then one more
    /// commit that every live member must accept (bounded liveness, DESIGN §2.8).
    pub fn heal(w: &World, stage: &mut u32) -> Option<Action> {
        if w.groups.is_empty() {
            return None;
        }
        for k in 0..w.ext.observers.len() {
            if crate::observer::obs_pending(w) {
                let _ = k;
                let kk = (0..w.ext.observers.len()).find(|k| crate::observer::next_pending(w, *k)).unwrap_or(0);
                return Some(Action::Special {
                    kind: "obs_feed".into(),
                    a: kk as u64,
                    b: 1,
                    c: 0,
                });
            }
        }
        for g in 0..w.groups.len() {
            let mut st = (*stage >> (2 * g)) & 3;
            let a = Gen::heal_group(w, g, &mut st);
            *stage = (*stage & !(3 << (2 * g))) | (st << (2 * g));
            if a.is_some() {
                return a;
            }
        }
        None
    }

    fn heal_group(w: &World, g: usize, stage: &mut u32) -> Option<Action> {
        let n = w.parties.len();
        let latest = w.groups[g].log.len() as u64;
        for p in 0..n {
            if let Some(m) = w.mem_ref(p, g) {
                if m.group.is_none() && matches!(m.status, Status::Member) {
                    return Some(Action::Reload { p, g });
                }
            }
        }
        if w.groups[g].candidates.get(&latest).map(|c| !c.is_empty()).unwrap_or(false) {
            return Some(Action::DsPick { g, choice: 0 });
        }
        for p in w.live_members(g) {
            if w.epoch_of(p, g).map(|e| e < latest).unwrap_or(false) {
                return Some(Action::DeliverCommit {
                    p,
                    g,
                    own_apply: false,
                });
            }
        }
        for p in 0..n {
            if w.mem_ref(p, g).map(|m| m.welcome.is_some()).unwrap_or(false) && !w.parties[p].crashed {
                return Some(Action::Join { p, g });
            }
        }
        for p in w.live_members(g) {
            if !w.parties[p].mems[g].inbox.is_empty() {
                return Some(Action::Deliver {
                    p,
                    g,
                    k: 0,
                    fate: Fate::Normal,
                });
            }
        }
        // everything is delivered: every live member persists once more (late messages may have touched stored epochs)
        if *stage == 0 {
            for p in w.live_members(g) {
                if !w.ext.final_written.contains(&(p, g)) && w.cfg.weight("write") > 0 {
                    return Some(Action::Write { p, g });
                }
            }
        }
        // final commit round
        if *stage == 0 {
            *stage = 1;
            let live = w.live_members(g);
            let cands: Vec<usize> = live
                .iter()
                .copied()
                .filter(|p| w.parties[*p].mems[g].pending.is_none())
                .collect();
            if let (Some(p), true) = (cands.first(), w.groups[g].reinit_at.is_none()) {
                return Some(Action::Commit {
                    p: *p,
                    g,
                    spec: CommitSpec {
                        ratchet_tree_ext: true,
                        single_welcome: true,
                        path_required: true,
                        ..Default::default()
                    },
                });
            }
        }
        if *stage == 1 {
            *stage = 2;
            if let Some(p) = w.live_members(g).first() {
                return Some(Action::SendApp {
                    p: *p,
                    g,
                    len: 9,
                    aad_len: 2,
                });
            }
        }
        None
    }
}
