//! Interposition of libc `getrandom`: std's `RandomState` obtains its per-thread keys through this
//! symbol, so `HashMap` iteration order inside the library becomes a function of the run seed.
//! (std documents that the symbol is looked up weakly "to allow interposition".)

use std::cell::Cell;
use std::sync::atomic::{AtomicU64, Ordering};

thread_local! {
    static STATE: Cell<(u64, u64)> = const { Cell::new((0x5eed_5eed_5eed_5eed, 0)) };
}
static FALLBACK: AtomicU64 = AtomicU64::new(0x1234_5678_9abc_def0);
pub static CALLS: AtomicU64 = AtomicU64::new(0);

pub fn set_thread_seed(seed: u64) {
    let _ = STATE.try_with(|s| s.set((seed, 0)));
}

fn next_word() -> u64 {
    let r = STATE.try_with(|s| {
        let (seed, ctr) = s.get();
        s.set((seed, ctr + 1));
        let mut x = seed ^ ctr.wrapping_mul(0x9E37_79B9_7F4A_7C15);
        crate::prng::splitmix(&mut x)
    });
    match r {
        Ok(v) => v,
        Err(_) => {
            let mut x = FALLBACK.fetch_add(0x9E37_79B9_7F4A_7C15, Ordering::Relaxed);
            crate::prng::splitmix(&mut x)
        }
    }
}

/// # Safety
/// Called by libc users with a valid buffer of `buflen` bytes.
#[no_mangle]
pub unsafe extern "C" fn getrandom(buf: *mut libc::c_void, buflen: libc::size_t, _flags: libc::c_uint) -> libc::ssize_t {
    CALLS.fetch_add(1, Ordering::Relaxed);
    let out = std::slice::from_raw_parts_mut(buf as *mut u8, buflen);
    for chunk in out.chunks_mut(8) {
        let w = next_word().to_le_bytes();
        chunk.copy_from_slice(&w[..chunk.len()]);
    }
    buflen as libc::ssize_t
}
