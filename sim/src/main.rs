#![allow(dead_code, unused_variables, unused_assignments, unused_imports)]
mod c10;
mod c13;
mod c17;
mod codec;
mod crypto;
mod gen;
mod interpose;
mod known;
mod observer;
mod oracles;
mod prng;
mod refmls;
mod treeor;
mod runner;
mod scenarios;
mod selfcheck;
mod seams;
mod types;
mod world;
mod x509sim;

use std::collections::BTreeMap;

#[global_allocator]
static GLOBAL: codec::Counting = codec::Counting;

use runner::*;
use types::*;

fn env_u64(k: &str, d: u64) -> u64 {
    std::env::var(k).ok().and_then(|v| v.parse().ok()).unwrap_or(d)
}

pub const DEFAULT_SEED: u64 = 20260922;

/// (quick runs, thorough max runs) per property; quick is sized for roughly a minute on 16 cores
fn run_counts(property: &str) -> (u64, u64) {
    // quick: about 20-30 s on 16 cores; thorough: bounded by the wall-clock budget (600 s) rather than by the count
    match property {
        "C01" => (8000, 400_000),
        "C05" => (4000, 100_000),
        "C06" => (2400, 100_000),
        "C08" | "C12" => (3000, 100_000),
        "C13" | "C14" | "C15" | "C19" => (6000, 200_000),
        _ => (10_000, 400_000),
    }
}

fn level_of(property: &str) -> &'static str {
    match property {
        "C15" => "fault_enumeration",
        _ => "exploration",
    }
}

fn main() {
    let args: Vec<String> = std::env::args().collect();
    if args.len() < 2 {
        eprintln!("usage: mlsim check <Cxx> [--tier quick|thorough] | replay <file> | determinism <Cxx> <runs> | one <Cxx> <i>");
        std::process::exit(2);
    }
    // library panics are caught and turned into violations; keep stderr quiet
    if std::env::var("VERIF_VERBOSE_PANIC").is_err() {
        std::panic::set_hook(Box::new(|_| {}));
    }
    let code = match args[1].as_str() {
        "check" => cmd_check(&args[2..]),
        "replay" => cmd_replay(&args[2..]),
        "determinism" => cmd_determinism(&args[2..]),
        "one" => cmd_one(&args[2..]),
        "selfcheck" => {
            let sc = selfcheck::run();
            for (f, n) in &sc.files {
                println!("{f}: {n} values");
            }
            for e in &sc.errors {
                println!("DISAGREES {e}");
            }
            if sc.errors.is_empty() { 0 } else { 2 }
        }
        _ => 2,
    };
    std::process::exit(code);
}

fn opt<'a>(args: &'a [String], name: &str) -> Option<&'a str> {
    args.iter().position(|a| a == name).and_then(|i| args.get(i + 1)).map(|s| s.as_str())
}

fn cmd_check(args: &[String]) -> i32 {
    let property = args.first().cloned().unwrap_or_default();
    let tier = opt(args, "--tier")
        .map(|s| s.to_string())
        .or_else(|| std::env::var("VERIF_TIER").ok())
        .unwrap_or_else(|| "quick".into());
    let seed = env_u64("VERIF_SEED", DEFAULT_SEED);
    let jobs = env_u64("VERIF_JOBS", 16) as usize;
    let (q, t) = run_counts(&property);
    let thorough = tier == "thorough";
    // the secondary build configuration runs a fraction of the default count
    let frac = env_u64("VERIF_RUN_FRACTION", 1).max(1);
    let max_runs = env_u64("VERIF_RUNS", (if thorough { t } else { q }) / frac);
    let budget_s = env_u64("VERIF_BUDGET_S", if thorough { 600 } else { 100_000 }) as f64;
    let verif_dir = std::env::var("VERIF_DIR").unwrap_or_else(|_| "/verif".into());
    let secondary = std::env::var("VERIF_SECONDARY").is_ok();
    println!("mlsim check {property} tier={tier} VERIF_SEED={seed} runs<={max_runs} budget={budget_s}s jobs={jobs} build={BUILD}");
    // the reference model must agree with the vectors shipped in the repository before it judges the library
    let sc = selfcheck::run();
    if !sc.errors.is_empty() {
        for e in sc.errors.iter().take(10) {
            eprintln!("HARNESS-ERROR: reference model disagrees with test vector {e}");
        }
        return 2;
    }
    println!("reference model self-check: {} values of {} vector files agree", sc.compared, sc.files.iter().filter(|f| f.1 > 0).count());
    let bp = BatchParams {
        property: property.clone(),
        tier: tier.clone(),
        seed,
        max_runs,
        budget_s,
        jobs,
        stop_on_violation: true,
    };
    let (mut agg, wall) = run_batch(&bp);
    if !agg.harness_errors.is_empty() {
        for e in &agg.harness_errors {
            eprintln!("HARNESS-ERROR: {e}");
        }
        return 2;
    }
    // known findings
    let known = known::load();
    for k in known.known.iter().filter(|k| k.property == property && !secondary) {
        let hits = agg.known.get(&k.signature).copied().unwrap_or(0);
        println!("KNOWN-FINDING: property={} {} [signature {} seen {} times in this run]", k.property, k.what, k.signature, hits);
    }
    let mut exit = 0;
    let mut n_viol = 0;
    agg.violations.sort_by_key(|v| v.0);
    if let Some((i, rs, cfg, out)) = agg.violations.first() {
        let v = out.violation.clone().unwrap();
        println!("violation in run {i} (seed {rs}): [{}] {} :: {}", v.oracle, v.signature, v.detail);
        let (min_trace, min_v, tries) = minimise(cfg, *rs, &out.trace, &v, 300);
        println!("minimised {} -> {} actions in {tries} replays", out.trace.len(), min_trace.len());
        let rf = ReplayFile {
            property: property.clone(),
            seed: *rs,
            cfg: cfg.clone(),
            actions: min_trace,
            violation: Some(min_v.clone()),
            note: format!("found by `mlsim check {property} --tier {tier}` with VERIF_SEED={seed}, run {i}"),
            build: BUILD.to_string(),
            prim: if min_v.oracle == "provider-cross-check" { out.prim.clone() } else { None },
        };
        match write_replay(&format!("{verif_dir}/replays"), &rf) {
            Ok(path) => {
                // reproduce in a fresh process
                let exe = std::env::current_exe().unwrap();
                let st = std::process::Command::new(exe).arg("replay").arg(&path).arg("--quiet").status();
                match st.map(|s| s.code()) {
                    Ok(Some(1)) => {
                        println!("VIOLATION property={property} replay={path}");
                        println!("  oracle={} signature={} step={}", min_v.oracle, min_v.signature, min_v.step);
                        println!("  {}", min_v.detail);
                        exit = 1;
                        n_viol = agg.violations.len();
                    }
                    other => {
                        eprintln!("HARNESS-ERROR: violation did not reproduce in a fresh process ({other:?}); not reported as a violation: {path}");
                        exit = 2;
                    }
                }
            }
            Err(e) => {
                eprintln!("HARNESS-ERROR: cannot write replay: {e}");
                exit = 2;
            }
        }
    }
    // evidence
    let st = &agg.stats;
    let runs_per_hour = if wall > 0.0 { agg.runs as f64 / wall * 3600.0 } else { 0.0 };
    let ev = serde_json::json!({
        "property_id": property,
        "tier": tier,
        "seed": seed,
        "level": level_of(&property),
        "wall_s": wall,
        "violations": n_viol,
        "coverage": {
            "evaluations": agg.runs,
            "distinct_nontrivial": agg.nontrivial.len(),
            "rule": "one evaluation = one simulated world (seeded swarm configuration + seeded schedule of member operations, delivery-service decisions and faults); distinct = distinct sequence of executed action kinds; non-trivial = the run reached at least 2 epochs and at least one fault or rare-branch probe fired",
            "samples": agg.samples,
            "distinct_action_sequences": agg.seq_hashes.len(),
            "states": agg.states.len(),
            "state_measure": "hash of (log length, open candidates, occupied-leaf bitmap, per party: status, epochs behind, pending flag, cached proposals, inbox size, crashed)",
            "runs_per_hour": runs_per_hour,
            "simulated_seconds": st.sim_seconds,
            "actions_executed": st.actions,
            "actions_skipped": st.skipped,
            "epochs_reached": st.epochs,
            "max_members": st.max_members,
            "operations": st.ops,
            "faults_fired": st.faults,
            "rare_branch_probes": st.probes,
            "results": st.results,
            "oracle_checks": st.checks,
            "legitimately_stuck": st.stuck,
            "scenarios": agg.scenarios,
            "known_finding_hits": agg.known,
            "exhaustive": false,
            "reference_model_self_check": {"values_compared": sc.compared, "vector_files": sc.files.iter().map(|(f, n)| format!("{f}: {n}")).collect::<Vec<_>>()},
            "components": {
                "real": ["mls-rs", "mls-rs-core", "mls-rs-codec", "mls-rs-crypto-rustcrypto", "mls-rs-crypto-openssl", "mls-rs-crypto-awslc", "mls-rs-crypto-hpke", "mls-rs-provider-sqlite", "in-memory storage providers", "BasicIdentityProvider"],
                "simulated": ["delivery service", "clock", "randomness (deterministic mode)", "fault-injecting wrappers round storage / identity / rules traits", "crash and restart"],
            },
        },
        "build": BUILD,
        "assumptions": [
            "sampled histories, not exhaustive; seeds listed make every run repeatable",
            "deterministic-crypto runs use RustCrypto with key generation from the run PRNG",
        ],
    });
    let _ = std::fs::create_dir_all(format!("{verif_dir}/evidence"));
    let path = if secondary {
        format!("{verif_dir}/evidence/{property}.secondary.json")
    } else {
        format!("{verif_dir}/evidence/{property}.json")
    };
    if let Err(e) = std::fs::write(&path, serde_json::to_vec_pretty(&ev).unwrap()) {
        eprintln!("HARNESS-ERROR: cannot write evidence {path}: {e}");
        return 2;
    }
    println!(
        "{property}: {} runs in {:.1}s ({:.0}/h), {} actions, {} epochs, {} distinct sequences ({} non-trivial), {} states, faults {:?}",
        agg.runs, wall, runs_per_hour, st.actions, st.epochs, agg.seq_hashes.len(), agg.nontrivial.len(), agg.states.len(), st.faults
    );
    exit
}

fn cmd_replay(args: &[String]) -> i32 {
    let Some(path) = args.first() else { return 2 };
    let quiet = args.iter().any(|a| a == "--quiet");
    // a recorded provider disagreement is evaluated on its own: same two providers, same inputs
    if let Ok(data) = std::fs::read(path) {
        if let Ok(rf) = serde_json::from_slice::<ReplayFile>(&data) {
            if let Some(pc) = &rf.prim {
                return match crypto::replay_prim(pc) {
                    Ok(Some(d)) => {
                        if !quiet {
                            println!("VIOLATION property={} replay={path}", rf.property);
                            println!("  oracle=provider-cross-check primitive={} primary={} cross={} suite={}\n  {d}", pc.op, pc.primary, pc.cross, pc.suite);
                        }
                        1
                    }
                    Ok(None) => {
                        if !quiet {
                            println!("no violation on replay (the two providers agree on the recorded {} call)", pc.op);
                        }
                        0
                    }
                    Err(e) => {
                        eprintln!("HARNESS-ERROR: {e}");
                        2
                    }
                };
            }
        }
    }
    match replay_file(path) {
        Err(e) => {
            eprintln!("HARNESS-ERROR: {e}");
            2
        }
        Ok((rf, _)) if !rf.build.is_empty() && rf.build != BUILD => {
            eprintln!("HARNESS-ERROR: {path} was recorded by the `{}` build of the simulator, this is the `{BUILD}` build (./check picks the right one)", rf.build);
            2
        }
        Ok((rf, out)) => {
            if let Some(e) = out.harness_error {
                eprintln!("HARNESS-ERROR: {e}");
                return 2;
            }
            if !quiet {
                for l in &out.log_tail {
                    println!("{l}");
                }
            }
            match (&out.violation, &rf.violation) {
                (Some(v), Some(want)) => {
                    if v == want {
                        if !quiet {
                            println!("VIOLATION property={} replay={path}", rf.property);
                            println!("  oracle={} signature={} step={}\n  {}", v.oracle, v.signature, v.step, v.detail);
                        }
                        1
                    } else {
                        eprintln!("replay produced a different violation: {v:?} (recorded {want:?})");
                        3
                    }
                }
                (Some(v), None) => {
                    println!("VIOLATION property={} replay={path}\n  {v:?}", rf.property);
                    1
                }
                (None, _) => {
                    if !quiet {
                        println!("no violation on replay (log {})", out.log_hash);
                    }
                    0
                }
            }
        }
    }
}

fn cmd_determinism(args: &[String]) -> i32 {
    let property = args.first().cloned().unwrap_or_default();
    let runs: u64 = args.get(1).and_then(|s| s.parse().ok()).unwrap_or(100);
    let tier = opt(args, "--tier").unwrap_or("quick").to_string();
    let seed = env_u64("VERIF_SEED", DEFAULT_SEED);
    let jobs = env_u64("VERIF_JOBS", 16) as usize;
    let bp = BatchParams {
        property: property.clone(),
        tier,
        seed,
        max_runs: runs,
        budget_s: 1e9,
        jobs,
        stop_on_violation: false,
    };
    let (agg, _) = run_batch(&bp);
    let mut m: BTreeMap<u64, String> = BTreeMap::new();
    for (i, h) in agg.log_hashes {
        m.insert(i, h);
    }
    for (i, h) in m {
        println!("{i} {h}");
    }
    for (i, _, _, o) in &agg.violations {
        println!("violation {i} {:?}", o.violation.as_ref().map(|v| &v.signature));
    }
    0
}

fn cmd_one(args: &[String]) -> i32 {
    let property = args.first().cloned().unwrap_or_default();
    let i: u64 = args.get(1).and_then(|s| s.parse().ok()).unwrap_or(0);
    let tier = opt(args, "--tier").unwrap_or("quick").to_string();
    let seed = env_u64("VERIF_SEED", DEFAULT_SEED);
    let rs = run_seed(seed, &property, i);
    let cfg = gen::preset(&property, &tier, rs);
    println!("{}", serde_json::to_string(&cfg).unwrap());
    let out = run_one(&cfg, rs, None);
    for l in &out.log_tail {
        println!("{l}");
    }
    println!("stats: {}", serde_json::to_string(&out.stats).unwrap());
    println!("violation: {:?}", out.violation);
    println!("harness_error: {:?}", out.harness_error);
    0
}
