//! Start-up self-check of the reference model against the IETF-format vectors shipped in the repository
//! (`/repo/mls-rs/test_data`). A reference model that disagrees with its own vectors is a harness error (exit 2),
//! so that a mistake in the harness formulas cannot be reported as a violation of the library.

use serde_json::Value;

use crate::c13;
use crate::refmls::{put_vec, HashAlg, Tree};

fn hx(v: &Value) -> Vec<u8> {
    hex::decode(v.as_str().unwrap_or("")).unwrap_or_default()
}

fn load(name: &str) -> Option<Vec<Value>> {
    let dir = std::env::var("VERIF_REPO").unwrap_or_else(|_| "/repo".into());
    let p = format!("{dir}/mls-rs/test_data/{name}");
    let s = std::fs::read_to_string(p).ok()?;
    serde_json::from_str::<Vec<Value>>(&s).ok()
}

fn range_of(idx: u32) -> (u32, u32) {
    let k = (!idx).trailing_zeros();
    let span = 1u32 << k;
    let lo = (idx + 1 - span) / 2;
    (lo, lo + span)
}

pub struct Report {
    pub compared: u64,
    pub files: Vec<(String, u64)>,
    pub errors: Vec<String>,
}

pub fn run() -> Report {
    let mut rep = Report { compared: 0, files: vec![], errors: vec![] };
    let file = |name: &str, rep: &mut Report, f: &dyn Fn(&Value, &mut Vec<String>) -> u64| {
        let Some(cases) = load(name) else {
            rep.files.push((format!("{name} (absent)"), 0));
            return;
        };
        let mut n = 0;
        for (i, c) in cases.iter().enumerate() {
            let mut errs = vec![];
            n += f(c, &mut errs);
            for e in errs {
                rep.errors.push(format!("{name}[{i}]: {e}"));
            }
        }
        rep.compared += n;
        rep.files.push((name.to_string(), n));
    };

    // tree hash and resolution of every node (RFC 9420 §7.8, §4.1.1)
    file("interop_tree_validation.json", &mut rep, &|c, errs| {
        let alg = HashAlg::for_suite(c["cipher_suite"].as_u64().unwrap_or(1) as u16);
        let tree = match Tree::parse(&hx(&c["tree"])) {
            Ok(t) => t,
            Err(e) => {
                errs.push(format!("tree does not parse: {}", e.0));
                return 0;
            }
        };
        let hashes = c["tree_hashes"].as_array().cloned().unwrap_or_default();
        let res = c["resolutions"].as_array().cloned().unwrap_or_default();
        let mut n = 0;
        if hashes.len() as u32 != 2 * tree.full_leaves() - 1 {
            errs.push(format!("{} hashes for a tree of {} leaves", hashes.len(), tree.full_leaves()));
            return 0;
        }
        for idx in 0..hashes.len() as u32 {
            let (lo, hi) = range_of(idx);
            if tree.th(lo, hi, alg) != hx(&hashes[idx as usize]) {
                errs.push(format!("tree hash of node {idx}"));
            }
            let want: Vec<u32> = res[idx as usize]
                .as_array()
                .map(|a| a.iter().map(|x| x.as_u64().unwrap_or(0) as u32).collect())
                .unwrap_or_default();
            if tree.resolution(lo, hi) != want {
                errs.push(format!("resolution of node {idx}: {:?} vs {:?}", tree.resolution(lo, hi), want));
            }
            n += 2;
        }
        n
    });

    // key schedule (RFC 9420 §8) and exporter (§8.5)
    file("key_schedule_test_vector.json", &mut rep, &|c, errs| {
        let alg = HashAlg::for_suite(c["cipher_suite"].as_u64().unwrap_or(1) as u16);
        let mut init = hx(&c["initial_init_secret"]);
        let mut n = 0;
        for (e, ep) in c["epochs"].as_array().cloned().unwrap_or_default().iter().enumerate() {
            let ctx = hx(&ep["group_context"]);
            let pre = alg.extract(&init, &hx(&ep["commit_secret"]));
            let joiner = alg.expand_with_label(&pre, "joiner", &ctx, alg.len());
            let r = c13::derive_epoch(alg, &joiner, &hx(&ep["psk_secret"]), &ctx);
            let pairs: Vec<(&str, &Vec<u8>)> = vec![
                ("joiner_secret", &r.joiner),
                ("welcome_secret", &r.welcome),
                ("init_secret", &r.init),
                ("sender_data_secret", &r.sender_data),
                ("encryption_secret", &r.encryption),
                ("exporter_secret", &r.exporter),
                ("epoch_authenticator", &r.authentication),
                ("external_secret", &r.external),
                ("confirmation_key", &r.confirm),
                ("membership_key", &r.membership),
                ("resumption_psk", &r.resumption),
            ];
            for (k, v) in pairs {
                if hx(&ep[k]) != *v {
                    errs.push(format!("epoch {e}: {k}"));
                }
                n += 1;
            }
            let x = &ep["exporter"];
            let got = c13::export(
                alg,
                &r.exporter,
                x["label"].as_str().unwrap_or("").as_bytes(),
                &hx(&x["context"]),
                x["length"].as_u64().unwrap_or(0) as usize,
            );
            if got != hx(&x["secret"]) {
                errs.push(format!("epoch {e}: exporter"));
            }
            n += 1;
            init = r.init.clone();
        }
        n
    });

    // PSK chain (RFC 9420 §8.4)
    file("psk_secret.json", &mut rep, &|c, errs| {
        let alg = HashAlg::for_suite(c["cipher_suite"].as_u64().unwrap_or(1) as u16);
        let psks: Vec<(Vec<u8>, Vec<u8>)> = c["psks"]
            .as_array()
            .cloned()
            .unwrap_or_default()
            .iter()
            .map(|p| {
                let mut raw = vec![1u8];
                put_vec(&mut raw, &hx(&p["id"]));
                put_vec(&mut raw, &hx(&p["nonce"]));
                (raw, hx(&p["psk"]))
            })
            .collect();
        if c13::psk_secret(alg, &psks) != hx(&c["psk_secret"]) {
            errs.push("psk_secret".into());
        }
        1
    });

    // secret tree, ratchets, sender data key (RFC 9420 §9, §6.3.2)
    file("secret_tree_interop.json", &mut rep, &|c, errs| {
        let cs = c["cipher_suite"].as_u64().unwrap_or(1) as u16;
        let alg = HashAlg::for_suite(cs);
        let (nk, nn) = c13::aead_sizes(cs);
        let enc = hx(&c["encryption_secret"]);
        let leaves = c["leaves"].as_array().cloned().unwrap_or_default();
        let mut n = 0;
        for (leaf, gens) in leaves.iter().enumerate() {
            for g in gens.as_array().cloned().unwrap_or_default() {
                let generation = g["generation"].as_u64().unwrap_or(0) as u32;
                for (app, kn, nnm) in [(true, "application_key", "application_nonce"), (false, "handshake_key", "handshake_nonce")] {
                    let (k, no) = c13::message_key(alg, &enc, leaves.len() as u32, leaf as u32, app, generation, nk, nn);
                    if k != hx(&g[kn]) || no != hx(&g[nnm]) {
                        errs.push(format!("leaf {leaf} generation {generation} app={app}"));
                    }
                    n += 2;
                }
            }
        }
        let sd = &c["sender_data"];
        let ct = hx(&sd["ciphertext"]);
        let sample = &ct[..alg.len().min(ct.len())];
        let secret = hx(&sd["sender_data_secret"]);
        if alg.expand_with_label(&secret, "key", sample, nk) != hx(&sd["key"])
            || alg.expand_with_label(&secret, "nonce", sample, nn) != hx(&sd["nonce"])
        {
            errs.push("sender data key / nonce".into());
        }
        n + 2
    });

    // transcript hashes and confirmation tag (RFC 9420 §8.2, §6.1)
    file("interop_transcript_hashes.json", &mut rep, &|c, errs| {
        let alg = HashAlg::for_suite(c["cipher_suite"].as_u64().unwrap_or(1) as u16);
        let ac = hx(&c["authenticated_content"]);
        let mut tag_enc = vec![];
        put_vec(&mut tag_enc, &vec![0u8; alg.len()]);
        if ac.len() < tag_enc.len() {
            errs.push("authenticated content too short".into());
            return 0;
        }
        let body = &ac[..ac.len() - tag_enc.len()];
        let tag = &ac[ac.len() - alg.len()..];
        let mut input = hx(&c["interim_transcript_hash_before"]);
        input.extend_from_slice(body);
        let confirmed = alg.hash(&input);
        if confirmed != hx(&c["confirmed_transcript_hash_after"]) {
            errs.push("confirmed transcript hash".into());
        }
        if alg.hmac(&hx(&c["confirmation_key"]), &confirmed) != tag {
            errs.push("confirmation tag".into());
        }
        let mut input = confirmed.clone();
        put_vec(&mut input, tag);
        if alg.hash(&input) != hx(&c["interim_transcript_hash_after"]) {
            errs.push("interim transcript hash".into());
        }
        3
    });
    rep
}
