//! C17: re-initialisation and branching. The old group's history comes from the ordinary simulation (sparse
//! trees, identity changes); the successor / sub-group flows are driven here with every member-set relation.

use mls_rs::error::MlsError;
use mls_rs::mls_rs_codec::MlsEncode;
use mls_rs::MlsMessage;

use crate::prng::{mix, Prng};
use crate::types::*;
use crate::world::*;

fn viol(w: &World, oracle: &str, sig: String, detail: String) -> Violation {
    Violation::new(&w.cfg.property, oracle, sig, detail)
}

#[derive(Clone, Copy, Debug, PartialEq, Eq)]
enum Relation {
    Equal,
    Subset,
    Superset,
    Replaced,
}

fn record(group: &SimGroup) -> Option<(Vec<u8>, Vec<u8>, Vec<u8>)> {
    Some((
        group.context().mls_encode_to_vec().ok()?,
        group.export_tree().to_bytes().ok()?,
        group.epoch_authenticator().ok()?.as_bytes().to_vec(),
    ))
}

/// A group that only *looks* like the announced successor / sub-group: created from scratch by `imp`'s ordinary
/// client with the given group id, the key packages added by an ordinary commit (epoch 1). Its Welcome carries no
/// resumption PSK, so nothing links it to the old group.
fn unlinked_group(w: &mut World, imp: usize, gid: &[u8], kps: &[Vec<u8>]) -> VResult<Option<(Vec<Vec<u8>>, Vec<u8>)>> {
    let prop = w.cfg.property.clone();
    let now = w.now();
    let client = w.parties[imp].client.clone();
    let gid = gid.to_vec();
    let kps = kps.to_vec();
    let r: Result<(Vec<Vec<u8>>, Vec<u8>), MlsError> = guarded(&prop, "unlinked look-alike group", move || {
        let mut ng = client.group_builder()?.with_group_id(gid).with_now_time(now).build()?;
        let mut b = ng.commit_builder();
        for k in &kps {
            b = b.add_member(MlsMessage::from_bytes(k)?)?;
        }
        let out = b.commit_time(now).build()?;
        ng.apply_pending_commit()?;
        let mut ws = vec![];
        for m in &out.welcome_messages {
            ws.push(m.to_bytes()?);
        }
        Ok((ws, ng.export_tree().to_bytes()?))
    })?;
    Ok(r.ok())
}

/// After the run: if the group was re-initialised, the old group must refuse further commits and a successor
/// can be created and joined exactly when its members are the old members.
pub fn finish_reinit(w: &mut World) -> VResult<()> {
    if !w.cfg.oracle("reinit") {
        return Ok(());
    }
    let g = 0usize;
    let Some(at) = w.groups[g].reinit_at else { return Ok(()) };
    let prop = w.cfg.property.clone();
    let now = w.now();
    // members that have applied the re-init commit
    let members: Vec<usize> = (0..w.parties.len())
        .filter(|p| {
            w.mem_ref(*p, g)
                .map(|m| m.group.is_some() && m.status == Status::Member)
                .unwrap_or(false)
                && w.groups[g].members.get(&at).map(|m| m.contains_key(p)).unwrap_or(false)
        })
        .collect();
    let old_roster: Vec<usize> = w.groups[g].members.get(&at).map(|m| m.keys().copied().collect()).unwrap_or_default();
    if members.len() != old_roster.len() || members.is_empty() {
        // somebody is stuck or crashed: the successor flow needs everybody
        w.stats.probe("reinit-flow-skipped-member-missing");
        return Ok(());
    }
    // in half of the runs every member first stores the re-initialised group and comes back from storage: the
    // re-initialisation has to survive that
    if mix(&[w.seed, 0xc17, 1]) % 2 == 0 {
        for p in &members {
            w.do_write(*p, g)?;
            w.do_crash(*p)?;
            w.do_reload(*p, g)?;
            if w.parties[*p].mems[g].group.is_none() {
                w.stats.probe("reinit-flow-skipped-member-missing");
                return Ok(());
            }
        }
        w.stats.probe("reinit-members-reloaded-from-storage");
    }
    // (a) the old group refuses further commits
    for p in &members {
        let mut c = w.parties[*p].mems[g].group.clone().unwrap();
        let r = guarded(&prop, "commit(after re-init)", || c.commit_builder().commit_time(now).build())?;
        w.stats.check("old-group-refuses-commit-after-reinit");
        if r.is_ok() {
            return Err(viol(
                w,
                "old-group-closed-after-reinit",
                "commit-after-reinit-built".into(),
                format!("P{p} built a commit in g{g} after the re-init commit had been applied"),
            ));
        }
    }
    let mut r = Prng::new(mix(&[w.seed, 0xc17]));
    let relation = *r.pick(&[Relation::Equal, Relation::Equal, Relation::Subset, Relation::Superset, Relation::Replaced]);
    let creator = *r.pick(&members);
    let mut joiners: Vec<usize> = members.iter().copied().filter(|p| *p != creator).collect();
    r.shuffle(&mut joiners);
    let outsider = (0..w.parties.len()).find(|p| !old_roster.contains(p) && !w.parties[*p].crashed);
    let mut use_outsider = false;
    match relation {
        Relation::Equal => {}
        Relation::Subset => {
            if joiners.is_empty() {
                return Ok(());
            }
            joiners.pop();
        }
        Relation::Superset => {
            if outsider.is_none() {
                return Ok(());
            }
            use_outsider = true;
        }
        Relation::Replaced => {
            if outsider.is_none() || joiners.is_empty() {
                return Ok(());
            }
            joiners.pop();
            use_outsider = true;
        }
    }
    *w.stats.probes.entry(format!("reinit-successor:{relation:?}")).or_default() += 1;
    let old_tree_sparse = {
        let grp = w.parties[creator].mems[g].group.as_ref().unwrap();
        let t = crate::refmls::Tree::parse(&grp.export_tree().to_bytes().unwrap_or_default());
        t.map(|t| {
            let occ = t.occupied_leaves();
            occ.last().map(|l| (*l as usize + 1) != occ.len()).unwrap_or(false)
        })
        .unwrap_or(false)
    };
    if old_tree_sparse {
        w.stats.probe("reinit-from-tree-with-interior-blank");
    }
    // key packages: old members through their re-init clients, the outsider through its ordinary client
    let mut kps = vec![];
    for j in &joiners {
        let grp = w.parties[*j].mems[g].group.clone().unwrap();
        let r = guarded(&prop, "reinit key package", || {
            grp.get_reinit_client(None, None)?.generate_key_package(Some(now))
        })?;
        match r {
            Ok(kp) => kps.push(kp.to_bytes().unwrap_or_default()),
            Err(e) => {
                return Err(viol(
                    w,
                    "reinit-successor",
                    format!("reinit-key-package-failed:{}", err_class(&e)),
                    format!("P{j} could not create a key package for the successor group: {e:?}"),
                ))
            }
        }
    }
    if use_outsider {
        let o = outsider.unwrap();
        if let Some(kp) = w.gen_key_package(o)? {
            kps.push(kp);
        }
    }
    // a look-alike successor (same id, version, suite, extensions; epoch 1; the old members' successor key
    // packages) built without the old group's resumption secret must not be joinable through the re-init client
    let same_suite = kps.first().map(|k| k.len() > 8 && u16::from_be_bytes([k[6], k[7]]) == w.cfg.suite).unwrap_or(false);
    if same_suite && !joiners.is_empty() {
        let imp = outsider.unwrap_or(creator);
        let gid = format!("reinit-of-{g}-{:08x}", w.seed as u32).into_bytes();
        let member_kps: Vec<Vec<u8>> = kps.iter().take(joiners.len()).cloned().collect();
        if let Some((ws, tree)) = unlinked_group(w, imp, &gid, &member_kps)? {
            for j in &joiners {
                let grp = w.parties[*j].mems[g].group.clone().unwrap();
                for wb in &ws {
                    let grp2 = grp.clone();
                    let r = guarded(&prop, "ReinitClient::join(unlinked)", || {
                        grp2.get_reinit_client(None, None)?.join(
                            &MlsMessage::from_bytes(wb)?,
                            Some(mls_rs::group::ExportedTree::from_bytes(&tree)?),
                            Some(now),
                        )
                    })?;
                    w.stats.check("unlinked-successor-refused");
                    if r.is_ok() {
                        return Err(viol(
                            w,
                            "reinit-successor",
                            "joined-unlinked-successor".into(),
                            format!("P{j} joined, through its re-init client, a group created from scratch by P{imp} with the announced parameters: its Welcome carries no re-init PSK of g{g}"),
                        ));
                    }
                }
            }
            w.stats.probe("unlinked-successor-offered");
        }
    }
    // a Byzantine old member creates the successor with everything right (the re-init PSK included) except the group
    // context extensions, which are not the announced ones: the re-init clients of the others must refuse its Welcome
    if same_suite && !joiners.is_empty() && relation == Relation::Equal && crate::prng::mix(&[w.seed, 0xb42]) % 2 == 0 {
        let cg = w.parties[creator].mems[g].group.clone().unwrap();
        let kps2 = kps.clone();
        mls_rs::group::verif_hooks::modifiers::set(40, w.seed as u8);
        let res = guarded(&prop, "ReinitClient::commit(other extensions)", || {
            let mut msgs = vec![];
            for k in &kps2 {
                msgs.push(MlsMessage::from_bytes(k)?);
            }
            cg.get_reinit_client(None, None)?.commit(msgs, Default::default(), Some(now))
        });
        let fired = mls_rs::group::verif_hooks::modifiers::clear();
        if let (Ok((ng, welcomes)), true) = (res?, fired > 0) {
            let tree = ng.export_tree().to_bytes().unwrap_or_default();
            w.stats.fault("B-SUCCESSOR-EXT");
            for j in &joiners {
                let grp = w.parties[*j].mems[g].group.clone().unwrap();
                for wm in &welcomes {
                    let wb = wm.to_bytes().unwrap_or_default();
                    let grp2 = grp.clone();
                    let r = guarded(&prop, "ReinitClient::join(other extensions)", || {
                        grp2.get_reinit_client(None, None)?.join(
                            &MlsMessage::from_bytes(&wb)?,
                            Some(mls_rs::group::ExportedTree::from_bytes(&tree)?),
                            Some(now),
                        )
                    })?;
                    w.stats.check("successor-with-other-extensions-refused");
                    if r.is_ok() {
                        return Err(viol(
                            w,
                            "reinit-successor",
                            "joined-successor-with-other-extensions".into(),
                            format!("P{j} joined, through its re-init client, a successor of g{g} whose group context extensions are not the ones the ReInit proposal announced"),
                        ));
                    }
                }
            }
        }
    }
    let cg = w.parties[creator].mems[g].group.clone().unwrap();
    let kps2 = kps.clone();
    let res = guarded(&prop, "ReinitClient::commit", || {
        let mut msgs = vec![];
        for k in &kps2 {
            msgs.push(MlsMessage::from_bytes(k)?);
        }
        cg.get_reinit_client(None, None)?.commit(msgs, Default::default(), Some(now))
    })?;
    w.stats.check("reinit-successor-iff-same-members");
    let expect_ok = relation == Relation::Equal;
    match (res, expect_ok) {
        (Err(e), true) => Err(viol(
            w,
            "reinit-successor",
            format!("legitimate-reinit-refused:{}", err_class(&e)),
            format!(
                "P{creator} could not create the successor of g{g} with exactly the old members ({} members, old tree sparse = {old_tree_sparse}): {e:?}",
                old_roster.len()
            ),
        )),
        (Ok(_), false) => Err(viol(
            w,
            "reinit-successor",
            format!("reinit-with-other-members-accepted:{relation:?}"),
            format!("P{creator} created a successor of g{g} whose member set is {relation:?} relative to the old group"),
        )),
        (Err(_), false) => Ok(()),
        (Ok((new_group, welcomes)), true) => {
            let canon = record(&new_group);
            if new_group.current_epoch() != 1 {
                return Err(viol(w, "reinit-successor", "successor-epoch-not-one".into(), format!("successor group starts at epoch {}", new_group.current_epoch())));
            }
            let tree = new_group.export_tree().to_bytes().unwrap_or_default();
            for j in &joiners {
                let grp = w.parties[*j].mems[g].group.clone().unwrap();
                let mut joined = None;
                for wm in &welcomes {
                    let wb = wm.to_bytes().unwrap_or_default();
                    let grp2 = grp.clone();
                    let tree2 = tree.clone();
                    let r = guarded(&prop, "ReinitClient::join", || {
                        grp2.get_reinit_client(None, None)?.join(
                            &MlsMessage::from_bytes(&wb)?,
                            Some(mls_rs::group::ExportedTree::from_bytes(&tree2)?),
                            Some(now),
                        )
                    })?;
                    if let Ok((gj, _)) = r {
                        joined = Some(gj);
                        break;
                    }
                }
                w.stats.check("old-member-joins-successor");
                match joined {
                    None => {
                        return Err(viol(
                            w,
                            "reinit-successor",
                            "old-member-cannot-join-successor".into(),
                            format!("P{j}, a member of the re-initialised group, could not join the successor with any of the Welcomes"),
                        ))
                    }
                    Some(gj) => {
                        if record(&gj) != canon {
                            return Err(viol(
                                w,
                                "reinit-successor",
                                "successor-state-differs".into(),
                                format!("P{j} joined the successor group with a different context / tree / authenticator than its creator P{creator}"),
                            ));
                        }
                    }
                }
            }
            // the successor's Welcome is a re-init Welcome: it is not a way into a "sub-group" of the old group
            if let (Some(j), Some(wm)) = (joiners.first(), welcomes.first()) {
                let grp = w.parties[*j].mems[g].group.clone().unwrap();
                let r = guarded(&prop, "join_subgroup(re-init Welcome)", || {
                    grp.join_subgroup(wm, Some(mls_rs::group::ExportedTree::from_bytes(&tree)?), Some(now))
                })?;
                w.stats.check("reinit-welcome-refused-by-join-subgroup");
                if r.is_ok() {
                    return Err(viol(
                        w,
                        "reinit-successor",
                        "reinit-welcome-accepted-by-join-subgroup".into(),
                        format!("P{j} joined the re-init successor's Welcome through join_subgroup (a branch operation)"),
                    ));
                }
            }
            // and a branch of the old group that imitates the successor (announced group id, all the members) is not
            // the successor: the re-init client must refuse its Welcome
            if same_suite && !joiners.is_empty() {
                let mut bkps = vec![];
                for j in &joiners {
                    if let Some(k) = w.gen_key_package(*j)? {
                        bkps.push(k);
                    }
                }
                if bkps.len() == joiners.len() {
                    let gid = format!("reinit-of-{g}-{:08x}", w.seed as u32).into_bytes();
                    let cg2 = w.parties[creator].mems[g].group.clone().unwrap();
                    let br: Result<(SimGroup, Vec<MlsMessage>), MlsError> = guarded(&prop, "branch(imitating the successor)", || {
                        let mut msgs = vec![];
                        for k in &bkps {
                            msgs.push(MlsMessage::from_bytes(k)?);
                        }
                        cg2.branch(gid.clone(), msgs, Some(now))
                    })?;
                    if let Ok((sub, bws)) = br {
                        let btree = sub.export_tree().to_bytes().unwrap_or_default();
                        for j in &joiners {
                            let grp = w.parties[*j].mems[g].group.clone().unwrap();
                            for wm in &bws {
                                let grp2 = grp.clone();
                                let r = guarded(&prop, "ReinitClient::join(branch Welcome)", || {
                                    grp2.get_reinit_client(None, None)?.join(wm, Some(mls_rs::group::ExportedTree::from_bytes(&btree)?), Some(now))
                                })?;
                                w.stats.check("branch-welcome-refused-by-reinit-client");
                                if r.is_ok() {
                                    return Err(viol(
                                        w,
                                        "reinit-successor",
                                        "branch-welcome-accepted-by-reinit-client".into(),
                                        format!("P{j} joined, through its re-init client, a sub-group that P{creator} branched off the old group with the announced group id"),
                                    ));
                                }
                            }
                        }
                        w.stats.probe("branch-imitating-successor-offered");
                    }
                }
            }
            // a party without the old group's state cannot join
            if let (Some(o), Some(wm)) = (outsider, welcomes.first()) {
                let client = w.parties[o].client.clone();
                let wb = wm.to_bytes().unwrap_or_default();
                let r = guarded(&prop, "join_group(successor, no old state)", || {
                    client.join_group(
                        Some(mls_rs::group::ExportedTree::from_bytes(&tree)?),
                        &MlsMessage::from_bytes(&wb)?,
                        Some(now),
                    )
                })?;
                w.stats.check("outsider-cannot-join-successor");
                if r.is_ok() {
                    return Err(viol(
                        w,
                        "reinit-successor",
                        "joined-successor-without-old-state".into(),
                        format!("P{o}, never a member of the re-initialised group, joined its successor"),
                    ));
                }
            }
            w.stats.probe("reinit-successor-created-and-joined");
            Ok(())
        }
    }
}

/// branch: a sub-group can be created and joined exactly when its members are a subset of the current members
pub fn do_branch(w: &mut World, creator: usize, mask: u64, variant: u64) -> VResult<bool> {
    let g = 0usize;
    if !w.live(creator, g) || w.groups[g].reinit_at.is_some() {
        return Ok(false);
    }
    let prop = w.cfg.property.clone();
    let now = w.now();
    let epoch = w.epoch_of(creator, g).unwrap();
    let same_epoch: Vec<usize> = w
        .live_members(g)
        .into_iter()
        .filter(|p| *p != creator && w.epoch_of(*p, g) == Some(epoch))
        .collect();
    let mut subset: Vec<usize> = same_epoch
        .iter()
        .enumerate()
        .filter(|(i, _)| mask >> (i % 60) & 1 == 1)
        .map(|(_, p)| *p)
        .collect();
    if subset.is_empty() {
        if let Some(p) = same_epoch.first() {
            subset.push(*p);
        } else {
            return Ok(false);
        }
    }
    let outsider = (0..w.parties.len()).find(|p| {
        matches!(w.mem_ref(*p, g).map(|m| m.status.clone()).unwrap_or(Status::Never), Status::Never | Status::Removed)
            && !w.parties[*p].crashed
            && !w.groups[g].members.get(&epoch).map(|m| m.contains_key(p)).unwrap_or(false)
    });
    let with_outsider = variant % 3 == 1 && outsider.is_some() && !w.multi();
    let mut kps = vec![];
    for j in &subset {
        match w.gen_key_package(*j)? {
            Some(k) => kps.push(k),
            None => return Ok(false),
        }
    }
    if with_outsider {
        match w.gen_key_package(outsider.unwrap())? {
            Some(k) => kps.push(k),
            None => return Ok(false),
        }
    }
    let sub_gid = format!("branch-of-{g}-{}-{:x}", w.step_no, w.seed as u16).into_bytes();
    // a look-alike sub-group built from scratch (no branch PSK) must not be joinable with join_subgroup
    if variant % 4 == 0 {
        let imp = outsider.unwrap_or(creator);
        let member_kps: Vec<Vec<u8>> = kps.iter().take(subset.len()).cloned().collect();
        if let Some((ws, tree)) = unlinked_group(w, imp, &sub_gid, &member_kps)? {
            for j in &subset {
                let grp = w.parties[*j].mems[g].group.clone().unwrap();
                for wb in &ws {
                    let r = guarded(&prop, "join_subgroup(unlinked)", || {
                        grp.join_subgroup(&MlsMessage::from_bytes(wb)?, Some(mls_rs::group::ExportedTree::from_bytes(&tree)?), Some(now))
                    })?;
                    w.stats.check("unlinked-subgroup-refused");
                    if r.is_ok() {
                        return Err(viol(
                            w,
                            "branch-subgroup",
                            "joined-unlinked-subgroup".into(),
                            format!("P{j} joined, with join_subgroup, a group created from scratch by P{imp}: its Welcome carries no branch PSK of g{g}"),
                        ));
                    }
                }
            }
            w.stats.probe("unlinked-subgroup-offered");
        }
        // the key packages offered to the look-alike are spent: fresh ones for the real branch
        kps.clear();
        for j in &subset {
            match w.gen_key_package(*j)? {
                Some(k) => kps.push(k),
                None => return Ok(false),
            }
        }
        if with_outsider {
            match w.gen_key_package(outsider.unwrap())? {
                Some(k) => kps.push(k),
                None => return Ok(false),
            }
        }
    }
    // a Byzantine member branches with everything right (the branch PSK included) except the group context
    // extensions, which are not those of the old group: join_subgroup must refuse the Welcome
    if variant % 4 == 2 && !with_outsider {
        let cg = w.parties[creator].mems[g].group.clone().unwrap();
        let kps2 = kps.clone();
        let gid2 = [&sub_gid[..], b"-x"].concat();
        mls_rs::group::verif_hooks::modifiers::set(40, variant as u8);
        let res: VResult<Result<(SimGroup, Vec<MlsMessage>), MlsError>> = guarded(&prop, "branch(other extensions)", || {
            let mut msgs = vec![];
            for k in &kps2 {
                msgs.push(MlsMessage::from_bytes(k)?);
            }
            cg.branch(gid2.clone(), msgs, Some(now))
        });
        let fired = mls_rs::group::verif_hooks::modifiers::clear();
        if let (Ok((sub, welcomes)), true) = (res?, fired > 0) {
            let tree = sub.export_tree().to_bytes().unwrap_or_default();
            w.stats.fault("B-SUCCESSOR-EXT");
            for j in &subset {
                let grp = w.parties[*j].mems[g].group.clone().unwrap();
                for wm in &welcomes {
                    let r = guarded(&prop, "join_subgroup(other extensions)", || {
                        grp.join_subgroup(wm, Some(mls_rs::group::ExportedTree::from_bytes(&tree)?), Some(now))
                    })?;
                    w.stats.check("subgroup-with-other-extensions-refused");
                    if r.is_ok() {
                        return Err(viol(
                            w,
                            "branch-subgroup",
                            "joined-subgroup-with-other-extensions".into(),
                            format!("P{j} joined, with join_subgroup, a sub-group of g{g} whose group context extensions differ from the old group's"),
                        ));
                    }
                }
            }
        }
        kps.clear();
        for j in &subset {
            match w.gen_key_package(*j)? {
                Some(k) => kps.push(k),
                None => return Ok(false),
            }
        }
    }
    let cg = w.parties[creator].mems[g].group.clone().unwrap();
    let kps2 = kps.clone();
    let res: Result<(SimGroup, Vec<MlsMessage>), MlsError> = guarded(&prop, "branch", || {
        let mut msgs = vec![];
        for k in &kps2 {
            msgs.push(MlsMessage::from_bytes(k)?);
        }
        cg.branch(sub_gid.clone(), msgs, Some(now))
    })?;
    w.stats.op("branch");
    w.stats.check("branch-iff-subset");
    match (res, with_outsider) {
        (Ok(_), true) => Err(viol(
            w,
            "branch-subgroup",
            "branch-with-non-member-accepted".into(),
            format!("P{creator} branched g{g} into a sub-group that contains P{}, who is not a member", outsider.unwrap()),
        )),
        (Err(_), true) => {
            w.stats.probe("branch-superset-refused");
            Ok(true)
        }
        (Err(e), false) => Err(viol(
            w,
            "branch-subgroup",
            format!("legitimate-branch-refused:{}", err_class(&e)),
            format!("P{creator} could not branch g{g} (epoch {epoch}) into a sub-group of current members {subset:?}: {e:?}"),
        )),
        (Ok((sub, welcomes)), false) => {
            let canon = record(&sub);
            let tree = sub.export_tree().to_bytes().unwrap_or_default();
            for j in &subset {
                let grp = w.parties[*j].mems[g].group.clone().unwrap();
                let mut joined = None;
                for wm in &welcomes {
                    let r = guarded(&prop, "join_subgroup", || {
                        grp.join_subgroup(wm, Some(mls_rs::group::ExportedTree::from_bytes(&tree)?), Some(now))
                    })?;
                    if let Ok((gj, _)) = r {
                        joined = Some(gj);
                        break;
                    }
                }
                w.stats.check("member-joins-branch");
                match joined {
                    None => {
                        return Err(viol(
                            w,
                            "branch-subgroup",
                            "member-cannot-join-branch".into(),
                            format!("P{j}, a current member at the same epoch, could not join the sub-group branched by P{creator}"),
                        ))
                    }
                    Some(gj) => {
                        if record(&gj) != canon {
                            return Err(viol(w, "branch-subgroup", "branch-state-differs".into(), format!("P{j} joined the branch with a different state than its creator")));
                        }
                    }
                }
            }
            // a member that is at another epoch holds another resumption secret: it must not get in
            let other = w
                .live_members(g)
                .into_iter()
                .find(|p| w.epoch_of(*p, g).map(|e| e != epoch).unwrap_or(false));
            if let (Some(o), Some(wm)) = (other, welcomes.first()) {
                let grp = w.parties[o].mems[g].group.clone().unwrap();
                let r = guarded(&prop, "join_subgroup(other epoch)", || {
                    grp.join_subgroup(wm, Some(mls_rs::group::ExportedTree::from_bytes(&tree)?), Some(now))
                })?;
                w.stats.check("branch-needs-resumption-secret-of-right-epoch");
                if r.is_ok() {
                    return Err(viol(
                        w,
                        "branch-subgroup",
                        "joined-branch-from-other-epoch".into(),
                        format!("P{o}, at epoch {:?} of g{g}, joined a sub-group branched at epoch {epoch}", w.epoch_of(o, g)),
                    ));
                }
            }
            // somebody without the group state cannot use the Welcome either
            if let (Some(o), Some(wm)) = (outsider, welcomes.first()) {
                let client = w.parties[o].client.clone();
                let r = guarded(&prop, "join_group(branch, no old state)", || {
                    client.join_group(Some(mls_rs::group::ExportedTree::from_bytes(&tree)?), wm, Some(now))
                })?;
                w.stats.check("outsider-cannot-join-branch");
                if r.is_ok() {
                    return Err(viol(w, "branch-subgroup", "joined-branch-without-old-state".into(), format!("P{o}, not a member of g{g}, joined a sub-group branched from it")));
                }
            }
            w.stats.probe("branch-created-and-joined");
            Ok(true)
        }
    }
}
