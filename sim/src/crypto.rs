//! The crypto seam: one concrete `CryptoProvider` for every simulated party.
//!
//! Layers (DESIGN §2.5):
//!  * provider selection (deterministic RustCrypto, RustCrypto, OpenSSL, AWS-LC) so that mixed-provider
//!    groups share one `Group<Config>` type;
//!  * deterministic mode: every random draw comes from the party's crypto PRNG;
//!  * recording: every HPKE seal / setup and every AEAD seal is logged with the current phase marker;
//!  * cross-check: every deterministic primitive is evaluated on a second provider and compared.

use std::cell::RefCell;
use std::sync::{Arc, Mutex};

use mls_rs_core::crypto::{
    CipherSuite, CipherSuiteProvider, CryptoProvider, HpkeCiphertext, HpkeContextR, HpkeContextS,
    HpkePsk, HpkePublicKey, HpkeSecretKey, SignaturePublicKey, SignatureSecretKey,
};
use mls_rs_core::error::IntoAnyError;
use mls_rs_crypto_awslc::AwsLcCryptoProvider;
use mls_rs_crypto_hpke::dhkem::DhKem;
use mls_rs_crypto_openssl::OpensslCryptoProvider;
use mls_rs_crypto_rustcrypto::{
    aead::Aead, ecdh::Ecdh, kdf::Kdf, RustCryptoCipherSuite, RustCryptoProvider,
};
use mls_rs_crypto_traits::{DhType, KemId, SamplingMethod};
use zeroize::Zeroizing;

use crate::prng::Prng;

#[derive(Clone, Copy, Debug, PartialEq, Eq, Hash, serde::Serialize, serde::Deserialize)]
pub enum ProviderKind {
    Det,
    RustCrypto,
    OpenSsl,
    AwsLc,
}

impl ProviderKind {
    pub fn name(&self) -> &'static str {
        match self {
            ProviderKind::Det => "rustcrypto-det",
            ProviderKind::RustCrypto => "rustcrypto",
            ProviderKind::OpenSsl => "openssl",
            ProviderKind::AwsLc => "awslc",
        }
    }
    pub fn supported(&self) -> Vec<CipherSuite> {
        match self {
            ProviderKind::Det | ProviderKind::RustCrypto => {
                RustCryptoProvider::new().supported_cipher_suites()
            }
            ProviderKind::OpenSsl => OpensslCryptoProvider::new().supported_cipher_suites(),
            ProviderKind::AwsLc => AwsLcCryptoProvider::new().supported_cipher_suites(),
        }
    }
}

#[derive(Debug)]
pub struct SimCryptoError(pub String);

impl std::fmt::Display for SimCryptoError {
    fn fmt(&self, f: &mut std::fmt::Formatter<'_>) -> std::fmt::Result {
        write!(f, "sim crypto: {}", self.0)
    }
}
impl std::error::Error for SimCryptoError {}
impl IntoAnyError for SimCryptoError {
    fn into_dyn_error(self) -> Result<Box<dyn std::error::Error + Send + Sync>, Self> {
        Ok(Box::new(self))
    }
}

fn e<E: IntoAnyError>(err: E) -> SimCryptoError {
    SimCryptoError(format!("{:?}", err.into_any_error()))
}

// ---------------------------------------------------------------------------------------------
// Recording

#[derive(Clone, Debug)]
pub enum Ev {
    HpkeSeal {
        phase: u64,
        party: u32,
        pk: Vec<u8>,
        psk: bool,
    },
    HpkeSetupS {
        phase: u64,
        party: u32,
        pk: Vec<u8>,
    },
    AeadSeal {
        phase: u64,
        party: u32,
        key: Vec<u8>,
        nonce: Vec<u8>,
        /// sealed with additional authenticated data: the content and the sender data of a PrivateMessage are, the
        /// GroupInfo of a Welcome (under the welcome key) is not
        with_aad: bool,
    },
}

#[derive(Default)]
pub struct Rec {
    pub on: bool,
    pub phase: u64,
    pub events: Vec<Ev>,
    pub n_sign: u64,
    pub n_verify: u64,
    pub n_hash: u64,
    pub n_kdf: u64,
    pub n_hpke_open: u64,
    pub n_aead_open: u64,
    pub n_cross: u64,
    pub cross_violations: Vec<String>,
    /// inputs of the primitive call being cross-checked (set by the methods whose verdict can depend on the shape of
    /// key material that a provider's own random generator produced)
    pub staged: Option<(String, Vec<Vec<u8>>)>,
    /// self-contained records of disagreements: (operation, suite, primary, cross, inputs)
    pub prim_cases: Vec<crate::types::PrimCase>,
}

thread_local! {
    pub static REC: RefCell<Rec> = RefCell::new(Rec::default());
}

pub fn rec_reset(on: bool) {
    REC.with(|r| {
        let mut r = r.borrow_mut();
        *r = Rec::default();
        r.on = on;
    })
}
pub fn rec_set_phase(p: u64) {
    REC.with(|r| r.borrow_mut().phase = p)
}
pub fn rec_put_events(ev: Vec<Ev>) {
    REC.with(|r| r.borrow_mut().events = ev)
}
pub fn rec_take_events() -> Vec<Ev> {
    REC.with(|r| std::mem::take(&mut r.borrow_mut().events))
}
pub fn rec_take_prim_cases() -> Vec<crate::types::PrimCase> {
    REC.with(|r| std::mem::take(&mut r.borrow_mut().prim_cases))
}
fn stage(op: &str, args: Vec<Vec<u8>>) {
    REC.with(|r| r.borrow_mut().staged = Some((op.to_string(), args)))
}
pub fn rec_take_cross_violations() -> Vec<String> {
    REC.with(|r| std::mem::take(&mut r.borrow_mut().cross_violations))
}
pub fn rec_counts() -> (u64, u64, u64, u64, u64, u64, u64) {
    REC.with(|r| {
        let r = r.borrow();
        (
            r.n_sign,
            r.n_verify,
            r.n_hash,
            r.n_kdf,
            r.n_hpke_open,
            r.n_aead_open,
            r.n_cross,
        )
    })
}

// ---------------------------------------------------------------------------------------------
// Per-party context (crypto PRNG)

pub struct CryptoCtx {
    pub party: u32,
    pub prng: Mutex<Prng>,
}

impl CryptoCtx {
    pub fn new(party: u32, seed: u64) -> Arc<Self> {
        Arc::new(CryptoCtx {
            party,
            prng: Mutex::new(Prng::new(seed)),
        })
    }
    pub fn fork(&self) -> Arc<Self> {
        Arc::new(CryptoCtx {
            party: self.party,
            prng: Mutex::new(self.prng.lock().unwrap().clone()),
        })
    }
    pub fn get_prng(&self) -> Prng {
        self.prng.lock().unwrap().clone()
    }
    pub fn set_prng(&self, p: Prng) {
        *self.prng.lock().unwrap() = p;
    }
}

// ---------------------------------------------------------------------------------------------
// Deterministic DH: RustCrypto ECDH with key generation from the party PRNG

#[derive(Clone)]
pub struct DetDh {
    inner: Ecdh,
    ctx: Arc<CryptoCtx>,
}

impl DhType for DetDh {
    type Error = <Ecdh as DhType>::Error;

    fn dh(
        &self,
        secret_key: &HpkeSecretKey,
        public_key: &HpkePublicKey,
    ) -> Result<Vec<u8>, Self::Error> {
        self.inner.dh(secret_key, public_key)
    }

    fn generate(&self) -> Result<(HpkeSecretKey, HpkePublicKey), Self::Error> {
        let n = self.inner.secret_key_size();
        let mut last = None;
        for _ in 0..64 {
            let bytes = self.ctx.prng.lock().unwrap().bytes(n);
            let sk: HpkeSecretKey = bytes.into();
            match self.inner.to_public(&sk) {
                Ok(pk) => return Ok((sk, pk)),
                Err(err) => last = Some(err),
            }
        }
        Err(last.unwrap())
    }

    fn to_public(&self, secret_key: &HpkeSecretKey) -> Result<HpkePublicKey, Self::Error> {
        self.inner.to_public(secret_key)
    }

    fn bitmask_for_rejection_sampling(&self) -> SamplingMethod {
        self.inner.bitmask_for_rejection_sampling()
    }

    fn secret_key_size(&self) -> usize {
        self.inner.secret_key_size()
    }

    fn public_key_size(&self) -> usize {
        self.inner.public_key_size()
    }

    fn public_key_validate(&self, key: &HpkePublicKey) -> Result<(), Self::Error> {
        self.inner.public_key_validate(key)
    }
}

pub type DetSuite = RustCryptoCipherSuite<DhKem<DetDh, Kdf>, Kdf, Aead>;
pub type RcSuite = <RustCryptoProvider as CryptoProvider>::CipherSuiteProvider;
pub type OsslSuite = <OpensslCryptoProvider as CryptoProvider>::CipherSuiteProvider;
pub type AwsSuite = <AwsLcCryptoProvider as CryptoProvider>::CipherSuiteProvider;

#[derive(Clone)]
pub enum Inner {
    Det(DetSuite),
    Rc(RcSuite),
    Ossl(OsslSuite),
    Aws(AwsSuite),
}

macro_rules! disp {
    ($inner:expr, $s:ident => $body:expr) => {
        match $inner {
            Inner::Det($s) => $body.map_err(e),
            Inner::Rc($s) => $body.map_err(e),
            Inner::Ossl($s) => $body.map_err(e),
            Inner::Aws($s) => $body.map_err(e),
        }
    };
}

macro_rules! disp_plain {
    ($inner:expr, $s:ident => $body:expr) => {
        match $inner {
            Inner::Det($s) => $body,
            Inner::Rc($s) => $body,
            Inner::Ossl($s) => $body,
            Inner::Aws($s) => $body,
        }
    };
}

fn make_inner(kind: ProviderKind, cs: CipherSuite, ctx: &Arc<CryptoCtx>) -> Option<Inner> {
    match kind {
        ProviderKind::Det => {
            let kdf = Kdf::new(cs)?;
            let ecdh = DetDh {
                inner: Ecdh::new(cs)?,
                ctx: ctx.clone(),
            };
            let kem_id = KemId::new(cs)?;
            let kem = DhKem::new(ecdh, kdf, kem_id as u16, kem_id.n_secret());
            let aead = Aead::new(cs)?;
            RustCryptoCipherSuite::new(cs, kem, kdf, aead).map(Inner::Det)
        }
        ProviderKind::RustCrypto => RustCryptoProvider::new()
            .cipher_suite_provider(cs)
            .map(Inner::Rc),
        ProviderKind::OpenSsl => OpensslCryptoProvider::new()
            .cipher_suite_provider(cs)
            .map(Inner::Ossl),
        ProviderKind::AwsLc => AwsLcCryptoProvider::new()
            .cipher_suite_provider(cs)
            .map(Inner::Aws),
    }
}

// ---------------------------------------------------------------------------------------------
// Provider

#[derive(Clone)]
pub struct SimCrypto {
    pub kind: ProviderKind,
    pub cross: Option<ProviderKind>,
    pub ctx: Arc<CryptoCtx>,
    pub suites: Vec<CipherSuite>,
}

impl SimCrypto {
    pub fn new(kind: ProviderKind, ctx: Arc<CryptoCtx>) -> Self {
        SimCrypto {
            kind,
            cross: None,
            suites: kind.supported(),
            ctx,
        }
    }
    pub fn with_cross(mut self, other: ProviderKind) -> Self {
        let o = other.supported();
        self.suites.retain(|s| o.contains(s));
        self.cross = Some(other);
        self
    }
    pub fn with_ctx(&self, ctx: Arc<CryptoCtx>) -> Self {
        SimCrypto {
            kind: self.kind,
            cross: self.cross,
            ctx,
            suites: self.suites.clone(),
        }
    }
}

impl CryptoProvider for SimCrypto {
    type CipherSuiteProvider = SimSuite;

    fn supported_cipher_suites(&self) -> Vec<CipherSuite> {
        self.suites.clone()
    }

    fn cipher_suite_provider(&self, cipher_suite: CipherSuite) -> Option<SimSuite> {
        if !self.suites.contains(&cipher_suite) {
            return None;
        }
        let inner = make_inner(self.kind, cipher_suite, &self.ctx)?;
        let cross = match self.cross {
            Some(k) => Some(make_inner(k, cipher_suite, &self.ctx)?),
            None => None,
        };
        Some(SimSuite {
            cs: cipher_suite,
            kind: self.kind,
            cross_kind: self.cross,
            inner,
            cross,
            ctx: self.ctx.clone(),
        })
    }
}

#[derive(Clone)]
pub struct SimSuite {
    cs: CipherSuite,
    kind: ProviderKind,
    cross_kind: Option<ProviderKind>,
    inner: Inner,
    cross: Option<Inner>,
    ctx: Arc<CryptoCtx>,
}

pub enum CtxS {
    Det(<DetSuite as CipherSuiteProvider>::HpkeContextS),
    Rc(<RcSuite as CipherSuiteProvider>::HpkeContextS),
    Ossl(<OsslSuite as CipherSuiteProvider>::HpkeContextS),
    Aws(<AwsSuite as CipherSuiteProvider>::HpkeContextS),
}

pub enum CtxR {
    Det(<DetSuite as CipherSuiteProvider>::HpkeContextR),
    Rc(<RcSuite as CipherSuiteProvider>::HpkeContextR),
    Ossl(<OsslSuite as CipherSuiteProvider>::HpkeContextR),
    Aws(<AwsSuite as CipherSuiteProvider>::HpkeContextR),
}

impl HpkeContextS for CtxS {
    type Error = SimCryptoError;
    fn seal(&mut self, aad: Option<&[u8]>, data: &[u8]) -> Result<Vec<u8>, Self::Error> {
        match self {
            CtxS::Det(c) => c.seal(aad, data).map_err(e),
            CtxS::Rc(c) => c.seal(aad, data).map_err(e),
            CtxS::Ossl(c) => c.seal(aad, data).map_err(e),
            CtxS::Aws(c) => c.seal(aad, data).map_err(e),
        }
    }
    fn export(&self, ctx: &[u8], len: usize) -> Result<Zeroizing<Vec<u8>>, Self::Error> {
        match self {
            CtxS::Det(c) => c.export(ctx, len).map_err(e),
            CtxS::Rc(c) => c.export(ctx, len).map_err(e),
            CtxS::Ossl(c) => c.export(ctx, len).map_err(e),
            CtxS::Aws(c) => c.export(ctx, len).map_err(e),
        }
    }
}

impl HpkeContextR for CtxR {
    type Error = SimCryptoError;
    fn open(
        &mut self,
        aad: Option<&[u8]>,
        ciphertext: &[u8],
    ) -> Result<Zeroizing<Vec<u8>>, Self::Error> {
        match self {
            CtxR::Det(c) => c.open(aad, ciphertext).map_err(e),
            CtxR::Rc(c) => c.open(aad, ciphertext).map_err(e),
            CtxR::Ossl(c) => c.open(aad, ciphertext).map_err(e),
            CtxR::Aws(c) => c.open(aad, ciphertext).map_err(e),
        }
    }
    fn export(&self, ctx: &[u8], len: usize) -> Result<Zeroizing<Vec<u8>>, Self::Error> {
        match self {
            CtxR::Det(c) => c.export(ctx, len).map_err(e),
            CtxR::Rc(c) => c.export(ctx, len).map_err(e),
            CtxR::Ossl(c) => c.export(ctx, len).map_err(e),
            CtxR::Aws(c) => c.export(ctx, len).map_err(e),
        }
    }
}

fn hexs(b: &[u8]) -> String {
    let n = b.len().min(24);
    format!("{}{}", hex::encode(&b[..n]), if b.len() > n { ".." } else { "" })
}

impl SimSuite {
    pub fn kind(&self) -> ProviderKind {
        self.kind
    }

    fn cross_report(&self, what: &str, detail: String) {
        REC.with(|r| {
            let mut rb = r.borrow_mut();
            if let Some((op, args)) = rb.staged.take() {
                if op == what {
                    let case = crate::types::PrimCase {
                        op,
                        suite: u16::from(self.cs),
                        primary: self.kind.name().to_string(),
                        cross: self.cross_kind.map(|k| k.name().to_string()).unwrap_or_default(),
                        args: args.iter().map(hex::encode).collect(),
                    };
                    rb.prim_cases.push(case);
                }
            }
        });
        REC.with(|r| {
            r.borrow_mut().cross_violations.push(format!(
                "provider disagreement in {what} (suite {:?}, {} vs cross): {detail}",
                self.cs,
                self.kind.name()
            ))
        });
    }

    /// compare a deterministic primitive evaluated on the cross provider
    fn cross_cmp<T: AsRef<[u8]>>(
        &self,
        what: &str,
        inputs: impl Fn() -> String,
        a: &Result<T, SimCryptoError>,
        b: Result<T, SimCryptoError>,
    ) {
        REC.with(|r| r.borrow_mut().n_cross += 1);
        match (a, &b) {
            (Ok(x), Ok(y)) => {
                if x.as_ref() != y.as_ref() {
                    self.cross_report(
                        what,
                        format!(
                            "outputs differ: {} vs {} on {}",
                            hexs(x.as_ref()),
                            hexs(y.as_ref()),
                            inputs()
                        ),
                    )
                }
            }
            (Err(_), Err(_)) => {}
            (Ok(_), Err(err)) => self.cross_report(
                what,
                format!("primary accepts, cross rejects ({}) on {}", err.0, inputs()),
            ),
            (Err(err), Ok(_)) => self.cross_report(
                what,
                format!("primary rejects ({}), cross accepts on {}", err.0, inputs()),
            ),
        }
    }

    fn cross_decision<A, B>(
        &self,
        what: &str,
        inputs: impl Fn() -> String,
        a: &Result<A, SimCryptoError>,
        b: Result<B, SimCryptoError>,
    ) {
        REC.with(|r| r.borrow_mut().n_cross += 1);
        match (a.is_ok(), b.is_ok()) {
            (true, false) => self.cross_report(
                what,
                format!(
                    "primary accepts, cross rejects ({}) on {}",
                    b.err().map(|x| x.0).unwrap_or_default(),
                    inputs()
                ),
            ),
            (false, true) => self.cross_report(
                what,
                format!(
                    "primary rejects ({}), cross accepts on {}",
                    a.as_ref().err().map(|x| x.0.clone()).unwrap_or_default(),
                    inputs()
                ),
            ),
            _ => {}
        }
    }
}

impl CipherSuiteProvider for SimSuite {
    type Error = SimCryptoError;
    type HpkeContextS = CtxS;
    type HpkeContextR = CtxR;

    fn cipher_suite(&self) -> CipherSuite {
        self.cs
    }

    fn hash(&self, data: &[u8]) -> Result<Vec<u8>, Self::Error> {
        cgate("hash")?;
        REC.with(|r| r.borrow_mut().n_hash += 1);
        let out = disp!(&self.inner, s => s.hash(data));
        if let Some(c) = &self.cross {
            let o2 = disp!(c, s => s.hash(data));
            self.cross_cmp("hash", || format!("len={}", data.len()), &out, o2);
        }
        out
    }

    fn mac(&self, key: &[u8], data: &[u8]) -> Result<Vec<u8>, Self::Error> {
        cgate("mac")?;
        let out = disp!(&self.inner, s => s.mac(key, data));
        if let Some(c) = &self.cross {
            let o2 = disp!(c, s => s.mac(key, data));
            self.cross_cmp(
                "mac",
                || format!("keylen={} len={}", key.len(), data.len()),
                &out,
                o2,
            );
        }
        out
    }

    fn aead_seal(
        &self,
        key: &[u8],
        data: &[u8],
        aad: Option<&[u8]>,
        nonce: &[u8],
    ) -> Result<Vec<u8>, Self::Error> {
        cgate("aead_seal")?;
        REC.with(|r| {
            let mut r = r.borrow_mut();
            if r.on {
                let phase = r.phase;
                r.events.push(Ev::AeadSeal {
                    phase,
                    party: self.ctx.party,
                    key: key.to_vec(),
                    nonce: nonce.to_vec(),
                    with_aad: aad.is_some(),
                });
            }
        });
        let out = disp!(&self.inner, s => s.aead_seal(key, data, aad, nonce));
        if let Some(c) = &self.cross {
            let o2 = disp!(c, s => s.aead_seal(key, data, aad, nonce));
            self.cross_cmp(
                "aead_seal",
                || {
                    format!(
                        "keylen={} len={} aad={:?} noncelen={}",
                        key.len(),
                        data.len(),
                        aad.map(|a| a.len()),
                        nonce.len()
                    )
                },
                &out,
                o2,
            );
        }
        out
    }

    fn aead_open(
        &self,
        key: &[u8],
        cipher_text: &[u8],
        aad: Option<&[u8]>,
        nonce: &[u8],
    ) -> Result<Zeroizing<Vec<u8>>, Self::Error> {
        cgate("aead_open")?;
        REC.with(|r| r.borrow_mut().n_aead_open += 1);
        let out = disp!(&self.inner, s => s.aead_open(key, cipher_text, aad, nonce));
        if let Some(c) = &self.cross {
            let o2 = disp!(c, s => s.aead_open(key, cipher_text, aad, nonce));
            self.cross_cmp(
                "aead_open",
                || {
                    format!(
                        "keylen={} ctlen={} aad={:?} noncelen={}",
                        key.len(),
                        cipher_text.len(),
                        aad.map(|a| a.len()),
                        nonce.len()
                    )
                },
                &out,
                o2,
            );
        }
        out
    }

    fn aead_key_size(&self) -> usize {
        disp_plain!(&self.inner, s => s.aead_key_size())
    }

    fn aead_nonce_size(&self) -> usize {
        disp_plain!(&self.inner, s => s.aead_nonce_size())
    }

    fn kdf_extract(&self, salt: &[u8], ikm: &[u8]) -> Result<Zeroizing<Vec<u8>>, Self::Error> {
        cgate("kdf_extract")?;
        REC.with(|r| r.borrow_mut().n_kdf += 1);
        let out = disp!(&self.inner, s => s.kdf_extract(salt, ikm));
        if let Some(c) = &self.cross {
            let o2 = disp!(c, s => s.kdf_extract(salt, ikm));
            self.cross_cmp(
                "kdf_extract",
                || format!("saltlen={} ikmlen={}", salt.len(), ikm.len()),
                &out,
                o2,
            );
        }
        out
    }

    fn kdf_expand(
        &self,
        prk: &[u8],
        info: &[u8],
        len: usize,
    ) -> Result<Zeroizing<Vec<u8>>, Self::Error> {
        cgate("kdf_expand")?;
        REC.with(|r| r.borrow_mut().n_kdf += 1);
        let out = disp!(&self.inner, s => s.kdf_expand(prk, info, len));
        if let Some(c) = &self.cross {
            let o2 = disp!(c, s => s.kdf_expand(prk, info, len));
            self.cross_cmp(
                "kdf_expand",
                || format!("prklen={} infolen={} len={}", prk.len(), info.len(), len),
                &out,
                o2,
            );
        }
        out
    }

    fn kdf_extract_size(&self) -> usize {
        disp_plain!(&self.inner, s => s.kdf_extract_size())
    }

    fn hpke_seal(
        &self,
        remote_key: &HpkePublicKey,
        info: &[u8],
        aad: Option<&[u8]>,
        pt: &[u8],
    ) -> Result<HpkeCiphertext, Self::Error> {
        cgate("hpke_seal")?;
        REC.with(|r| {
            let mut r = r.borrow_mut();
            if r.on {
                let phase = r.phase;
                r.events.push(Ev::HpkeSeal {
                    phase,
                    party: self.ctx.party,
                    pk: remote_key.as_ref().to_vec(),
                    psk: false,
                });
            }
        });
        disp!(&self.inner, s => s.hpke_seal(remote_key, info, aad, pt))
    }

    fn hpke_seal_psk(
        &self,
        remote_key: &HpkePublicKey,
        info: &[u8],
        aad: Option<&[u8]>,
        pt: &[u8],
        psk: HpkePsk<'_>,
    ) -> Result<HpkeCiphertext, Self::Error> {
        cgate("hpke_seal_psk")?;
        REC.with(|r| {
            let mut r = r.borrow_mut();
            if r.on {
                let phase = r.phase;
                r.events.push(Ev::HpkeSeal {
                    phase,
                    party: self.ctx.party,
                    pk: remote_key.as_ref().to_vec(),
                    psk: true,
                });
            }
        });
        disp!(&self.inner, s => s.hpke_seal_psk(remote_key, info, aad, pt, HpkePsk::new(psk.id, psk.value)))
    }

    fn hpke_open(
        &self,
        ciphertext: &HpkeCiphertext,
        local_secret: &HpkeSecretKey,
        local_public: &HpkePublicKey,
        info: &[u8],
        aad: Option<&[u8]>,
    ) -> Result<Zeroizing<Vec<u8>>, Self::Error> {
        cgate("hpke_open")?;
        REC.with(|r| r.borrow_mut().n_hpke_open += 1);
        let out =
            disp!(&self.inner, s => s.hpke_open(ciphertext, local_secret, local_public, info, aad));
        if let Some(c) = &self.cross {
            let o2 = disp!(c, s => s.hpke_open(ciphertext, local_secret, local_public, info, aad));
            stage("hpke_open", vec![ciphertext.kem_output.clone(), ciphertext.ciphertext.clone(), local_secret.as_ref().to_vec(), local_public.as_ref().to_vec(), info.to_vec(), vec![aad.is_some() as u8], aad.unwrap_or(&[]).to_vec()]);
            self.cross_cmp(
                "hpke_open",
                || {
                    format!(
                        "enc={} ctlen={} infolen={}",
                        hexs(&ciphertext.kem_output),
                        ciphertext.ciphertext.len(),
                        info.len()
                    )
                },
                &out,
                o2,
            );
        }
        out
    }

    fn hpke_open_psk(
        &self,
        ciphertext: &HpkeCiphertext,
        local_secret: &HpkeSecretKey,
        local_public: &HpkePublicKey,
        info: &[u8],
        aad: Option<&[u8]>,
        psk: HpkePsk<'_>,
    ) -> Result<Zeroizing<Vec<u8>>, Self::Error> {
        cgate("hpke_open_psk")?;
        REC.with(|r| r.borrow_mut().n_hpke_open += 1);
        let psk2 = HpkePsk::new(psk.id, psk.value);
        let out = disp!(&self.inner, s => s.hpke_open_psk(ciphertext, local_secret, local_public, info, aad, HpkePsk::new(psk.id, psk.value)));
        if let Some(c) = &self.cross {
            let o2 = disp!(c, s => s.hpke_open_psk(ciphertext, local_secret, local_public, info, aad, HpkePsk::new(psk2.id, psk2.value)));
            self.cross_cmp(
                "hpke_open_psk",
                || format!("ctlen={}", ciphertext.ciphertext.len()),
                &out,
                o2,
            );
        }
        out
    }

    fn hpke_setup_s(
        &self,
        remote_key: &HpkePublicKey,
        info: &[u8],
    ) -> Result<(Vec<u8>, Self::HpkeContextS), Self::Error> {
        cgate("hpke_setup_s")?;
        REC.with(|r| {
            let mut r = r.borrow_mut();
            if r.on {
                let phase = r.phase;
                r.events.push(Ev::HpkeSetupS {
                    phase,
                    party: self.ctx.party,
                    pk: remote_key.as_ref().to_vec(),
                });
            }
        });
        match &self.inner {
            Inner::Det(s) => s
                .hpke_setup_s(remote_key, info)
                .map(|(a, b)| (a, CtxS::Det(b)))
                .map_err(e),
            Inner::Rc(s) => s
                .hpke_setup_s(remote_key, info)
                .map(|(a, b)| (a, CtxS::Rc(b)))
                .map_err(e),
            Inner::Ossl(s) => s
                .hpke_setup_s(remote_key, info)
                .map(|(a, b)| (a, CtxS::Ossl(b)))
                .map_err(e),
            Inner::Aws(s) => s
                .hpke_setup_s(remote_key, info)
                .map(|(a, b)| (a, CtxS::Aws(b)))
                .map_err(e),
        }
    }

    fn hpke_setup_r(
        &self,
        enc: &[u8],
        local_secret: &HpkeSecretKey,
        local_public: &HpkePublicKey,
        info: &[u8],
    ) -> Result<Self::HpkeContextR, Self::Error> {
        cgate("hpke_setup_r")?;
        let out = match &self.inner {
            Inner::Det(s) => s
                .hpke_setup_r(enc, local_secret, local_public, info)
                .map(CtxR::Det)
                .map_err(e),
            Inner::Rc(s) => s
                .hpke_setup_r(enc, local_secret, local_public, info)
                .map(CtxR::Rc)
                .map_err(e),
            Inner::Ossl(s) => s
                .hpke_setup_r(enc, local_secret, local_public, info)
                .map(CtxR::Ossl)
                .map_err(e),
            Inner::Aws(s) => s
                .hpke_setup_r(enc, local_secret, local_public, info)
                .map(CtxR::Aws)
                .map_err(e),
        };
        if let Some(c) = &self.cross {
            // compare an exported value of both receiver contexts
            let a = out
                .as_ref()
                .map_err(|x| SimCryptoError(x.0.clone()))
                .and_then(|c| c.export(b"mlsim cross", 32));
            let b = match c {
                Inner::Det(s) => s
                    .hpke_setup_r(enc, local_secret, local_public, info)
                    .map_err(e)
                    .and_then(|c| c.export(b"mlsim cross", 32).map_err(e)),
                Inner::Rc(s) => s
                    .hpke_setup_r(enc, local_secret, local_public, info)
                    .map_err(e)
                    .and_then(|c| c.export(b"mlsim cross", 32).map_err(e)),
                Inner::Ossl(s) => s
                    .hpke_setup_r(enc, local_secret, local_public, info)
                    .map_err(e)
                    .and_then(|c| c.export(b"mlsim cross", 32).map_err(e)),
                Inner::Aws(s) => s
                    .hpke_setup_r(enc, local_secret, local_public, info)
                    .map_err(e)
                    .and_then(|c| c.export(b"mlsim cross", 32).map_err(e)),
            };
            self.cross_cmp("hpke_setup_r", || format!("enc={}", hexs(enc)), &a, b);
        }
        out
    }

    fn kem_derive(&self, ikm: &[u8]) -> Result<(HpkeSecretKey, HpkePublicKey), Self::Error> {
        cgate("kem_derive")?;
        let out = disp!(&self.inner, s => s.kem_derive(ikm));
        if let Some(c) = &self.cross {
            let o2 = disp!(c, s => s.kem_derive(ikm));
            let a = out
                .as_ref()
                .map(|(s, p)| [s.as_ref(), p.as_ref()].concat())
                .map_err(|x| SimCryptoError(x.0.clone()));
            let b = o2.map(|(s, p)| [s.as_ref(), p.as_ref()].concat());
            stage("kem_derive", vec![ikm.to_vec()]);
            self.cross_cmp("kem_derive", || format!("ikmlen={}", ikm.len()), &a, b);
        }
        out
    }

    fn kem_generate(&self) -> Result<(HpkeSecretKey, HpkePublicKey), Self::Error> {
        cgate("kem_generate")?;
        // (keys come from the provider's own generator: that is what produces provider-shaped key material, such as
        // a scalar exported without its leading zero byte; disagreements are recorded with their inputs - PrimCase)
        let out = disp!(&self.inner, s => s.kem_generate());
        if let (Some(c), Ok((sk, pk))) = (&self.cross, &out) {
            // a key generated by one provider must be usable by the other: seal with cross, open with primary
            let ct = disp!(c, s => s.hpke_seal(pk, b"mlsim", None, b"cross-check"));
            let opened = match ct {
                Ok(ct) => disp!(&self.inner, s => s.hpke_open(&ct, sk, pk, b"mlsim", None)),
                Err(err) => Err(err),
            };
            REC.with(|r| r.borrow_mut().n_cross += 1);
            match opened {
                Ok(pt) if &pt[..] == b"cross-check" => {}
                other => {
                    stage("kem_generate/hpke interop", vec![sk.as_ref().to_vec(), pk.as_ref().to_vec()]);
                    self.cross_report(
                        "kem_generate/hpke interop",
                        format!("seal by cross, open by primary failed: {:?}", other.map(|_| ())),
                    )
                }
            }
        }
        out
    }

    fn kem_public_key_validate(&self, key: &HpkePublicKey) -> Result<(), Self::Error> {
        cgate("kem_public_key_validate")?;
        let out = disp!(&self.inner, s => s.kem_public_key_validate(key));
        if let Some(c) = &self.cross {
            let o2 = disp!(c, s => s.kem_public_key_validate(key));
            stage("kem_public_key_validate", vec![key.as_ref().to_vec()]);
            self.cross_decision(
                "kem_public_key_validate",
                || format!("key={}", hexs(key)),
                &out,
                o2,
            );
        }
        out
    }

    fn random_bytes(&self, out: &mut [u8]) -> Result<(), Self::Error> {
        cgate("random_bytes")?;
        match &self.inner {
            Inner::Det(_) => {
                self.ctx.prng.lock().unwrap().fill(out);
                Ok(())
            }
            Inner::Rc(s) => CipherSuiteProvider::random_bytes(s, out).map_err(e),
            Inner::Ossl(s) => CipherSuiteProvider::random_bytes(s, out).map_err(e),
            Inner::Aws(s) => CipherSuiteProvider::random_bytes(s, out).map_err(e),
        }
    }

    fn signature_key_generate(
        &self,
    ) -> Result<(SignatureSecretKey, SignaturePublicKey), Self::Error> {
        cgate("signature_key_generate")?;
        match &self.inner {
            Inner::Det(s) => det_signature_key(self.cs, s, &self.ctx),
            Inner::Rc(s) => s.signature_key_generate().map_err(e),
            Inner::Ossl(s) => s.signature_key_generate().map_err(e),
            Inner::Aws(s) => s.signature_key_generate().map_err(e),
        }
    }

    fn signature_key_derive_public(
        &self,
        secret_key: &SignatureSecretKey,
    ) -> Result<SignaturePublicKey, Self::Error> {
        cgate("signature_key_derive_public")?;
        let out = disp!(&self.inner, s => s.signature_key_derive_public(secret_key));
        if let Some(c) = &self.cross {
            let o2 = disp!(c, s => s.signature_key_derive_public(secret_key));
            stage("signature_key_derive_public", vec![secret_key.as_ref().to_vec()]);
            self.cross_cmp(
                "signature_key_derive_public",
                || format!("sklen={}", secret_key.len()),
                &out,
                o2,
            );
        }
        out
    }

    fn sign(&self, secret_key: &SignatureSecretKey, data: &[u8]) -> Result<Vec<u8>, Self::Error> {
        cgate("sign")?;
        REC.with(|r| r.borrow_mut().n_sign += 1);
        let out = disp!(&self.inner, s => s.sign(secret_key, data));
        if let (Some(c), Ok(sig)) = (&self.cross, &out) {
            // a signature made by the primary must verify under the cross provider
            let pk = disp!(&self.inner, s => s.signature_key_derive_public(secret_key));
            if let Ok(pk) = pk {
                let v = disp!(c, s => s.verify(&pk, sig, data));
                REC.with(|r| r.borrow_mut().n_cross += 1);
                if let Err(err) = v {
                    stage("sign/verify interop", vec![secret_key.as_ref().to_vec(), data.to_vec(), sig.clone()]);
                    self.cross_report(
                        "sign/verify interop",
                        format!("signature by primary rejected by cross: {}", err.0),
                    );
                }
            }
        }
        out
    }

    fn verify(
        &self,
        public_key: &SignaturePublicKey,
        signature: &[u8],
        data: &[u8],
    ) -> Result<(), Self::Error> {
        cgate("verify")?;
        REC.with(|r| r.borrow_mut().n_verify += 1);
        let out = disp!(&self.inner, s => s.verify(public_key, signature, data));
        if let Some(c) = &self.cross {
            let o2 = disp!(c, s => s.verify(public_key, signature, data));
            stage("verify", vec![public_key.as_ref().to_vec(), signature.to_vec(), data.to_vec()]);
            self.cross_decision(
                "verify",
                || {
                    format!(
                        "pk={} siglen={} datalen={}",
                        hexs(public_key),
                        signature.len(),
                        data.len()
                    )
                },
                &out,
                o2,
            );
        }
        out
    }
}

/// Deterministic signature key pair from the party PRNG.
fn det_signature_key(
    cs: CipherSuite,
    s: &DetSuite,
    ctx: &Arc<CryptoCtx>,
) -> Result<(SignatureSecretKey, SignaturePublicKey), SimCryptoError> {
    let ed = cs == CipherSuite::CURVE25519_AES128 || cs == CipherSuite::CURVE25519_CHACHA;
    if ed {
        // RustCrypto keeps an Ed25519 secret key as seed || public key
        let seed = ctx.prng.lock().unwrap().bytes(32);
        let pkey =
            openssl::pkey::PKey::private_key_from_raw_bytes(&seed, openssl::pkey::Id::ED25519)
                .map_err(|x| SimCryptoError(x.to_string()))?;
        let public = pkey
            .raw_public_key()
            .map_err(|x| SimCryptoError(x.to_string()))?;
        let sk = SignatureSecretKey::new([seed, public.clone()].concat());
        let derived = s.signature_key_derive_public(&sk).map_err(e)?;
        if derived.as_ref() != &public[..] {
            return Err(SimCryptoError("ed25519 derivation mismatch".into()));
        }
        Ok((sk, derived))
    } else {
        let n = if cs == CipherSuite::P384_AES256 { 48 } else { 32 };
        for _ in 0..64 {
            let bytes = ctx.prng.lock().unwrap().bytes(n);
            let sk = SignatureSecretKey::new(bytes);
            if let Ok(pk) = s.signature_key_derive_public(&sk) {
                return Ok((sk, pk));
            }
        }
        Err(SimCryptoError("could not derive signature key".into()))
    }
}

// ---------------------------------------------------------------------------------------------
// C-ERR: injected provider errors (the k-th provider call of one library operation fails)

#[derive(Default)]
pub struct CFault {
    pub counting: bool,
    pub calls: u32,
    pub fail_at: Option<u32>,
    pub fired: u32,
    pub site: &'static str,
}

thread_local! {
    pub static CFAULT: RefCell<CFault> = RefCell::new(CFault::default());
}

pub fn cfault_begin(fail_at: Option<u32>) {
    CFAULT.with(|c| {
        let mut c = c.borrow_mut();
        c.counting = true;
        c.calls = 0;
        c.fired = 0;
        c.fail_at = fail_at;
        c.site = "";
    })
}

/// returns (provider calls made, faults fired, name of the call that failed)
pub fn cfault_end() -> (u32, u32, &'static str) {
    CFAULT.with(|c| {
        let mut c = c.borrow_mut();
        c.counting = false;
        c.fail_at = None;
        (c.calls, c.fired, c.site)
    })
}

fn cgate(what: &'static str) -> Result<(), SimCryptoError> {
    CFAULT.with(|c| {
        let mut c = c.borrow_mut();
        if c.counting {
            let i = c.calls;
            c.calls += 1;
            if c.fail_at == Some(i) {
                c.fired += 1;
                c.site = what;
                return Err(SimCryptoError(format!("injected crypto provider error at call {i} ({what})")));
            }
        }
        Ok(())
    })
}

impl ProviderKind {
    pub fn from_name(n: &str) -> Option<ProviderKind> {
        [ProviderKind::Det, ProviderKind::RustCrypto, ProviderKind::OpenSsl, ProviderKind::AwsLc]
            .into_iter()
            .find(|k| k.name() == n)
    }
}

/// Evaluate a recorded primitive call again on the same pair of providers; returns the disagreement, if any.
pub fn replay_prim(pc: &crate::types::PrimCase) -> Result<Option<String>, String> {
    let primary = ProviderKind::from_name(&pc.primary).ok_or("unknown primary provider")?;
    let cross = ProviderKind::from_name(&pc.cross).ok_or("unknown cross provider")?;
    let args: Vec<Vec<u8>> = pc.args.iter().map(|a| hex::decode(a).unwrap_or_default()).collect();
    let ctx = CryptoCtx::new(0, 1);
    let suite = SimCrypto::new(primary, ctx)
        .with_cross(cross)
        .cipher_suite_provider(CipherSuite::from(pc.suite))
        .ok_or("suite not supported by both providers")?;
    rec_reset(false);
    let a = |i: usize| args.get(i).cloned().unwrap_or_default();
    match pc.op.as_str() {
        "hpke_open" => {
            let ct = HpkeCiphertext { kem_output: a(0), ciphertext: a(1) };
            let aad = a(6);
            let r = suite.hpke_open(&ct, &a(2).into(), &a(3).into(), &a(4), if a(5) == [1] { Some(&aad[..]) } else { None });
            eprintln!("replayed hpke_open on {}: {}", pc.primary, match &r { Ok(_) => "accepts".to_string(), Err(e) => format!("rejects ({})", e.0) });
            if let Some(c) = &suite.cross {
                let r2 = disp!(c, s => s.hpke_open(&ct, &a(2).into(), &a(3).into(), &a(4), if a(5) == [1] { Some(&aad[..]) } else { None }));
                eprintln!("replayed hpke_open on {}: {}", pc.cross, match &r2 { Ok(_) => "accepts".to_string(), Err(e) => format!("rejects ({})", e.0) });
            }
        }
        "kem_derive" => {
            let _ = suite.kem_derive(&a(0));
        }
        "signature_key_derive_public" => {
            let _ = suite.signature_key_derive_public(&SignatureSecretKey::new(a(0)));
        }
        "verify" => {
            let _ = suite.verify(&a(0).into(), &a(1), &a(2));
        }
        "kem_public_key_validate" => {
            let _ = suite.kem_public_key_validate(&a(0).into());
        }
        "sign/verify interop" => {
            // the signature the primary made is part of the record: verify it on the cross provider
            let sk = SignatureSecretKey::new(a(0));
            if let (Some(c), Ok(pk)) = (&suite.cross, disp!(&suite.inner, s => s.signature_key_derive_public(&sk))) {
                if let Err(err) = disp!(c, s => s.verify(&pk, &a(2), &a(1))) {
                    return Ok(Some(format!("signature by primary rejected by cross: {}", err.0)));
                }
            }
            return Ok(None);
        }
        "kem_generate/hpke interop" => {
            let (sk, pk): (HpkeSecretKey, HpkePublicKey) = (a(0).into(), a(1).into());
            if let Some(c) = &suite.cross {
                let ct = disp!(c, s => s.hpke_seal(&pk, b"mlsim", None, b"cross-check"));
                let opened = match ct {
                    Ok(ct) => disp!(&suite.inner, s => s.hpke_open(&ct, &sk, &pk, b"mlsim", None)),
                    Err(err) => Err(err),
                };
                return Ok(match opened {
                    Ok(pt) if &pt[..] == b"cross-check" => None,
                    other => Some(format!("seal by cross, open by primary failed: {:?}", other.map(|_| ()))),
                });
            }
            return Ok(None);
        }
        other => return Err(format!("primitive `{other}` cannot be replayed on its own")),
    }
    Ok(rec_take_cross_violations().into_iter().next())
}
