//! C12: the wire codec as exercised through the seams the simulator owns. Every byte string the library
//! hands to the transport or to storage must round-trip exactly; every corrupted copy a faulty network or disk
//! can present must decode without panic, without an allocation driven by an unchecked length field, and, if it
//! decodes, must re-encode to exactly the bytes consumed (shortest-form varints, no over-reading).

use std::alloc::{GlobalAlloc, Layout, System};
use std::cell::Cell;

use mls_rs::mls_rs_codec::{MlsDecode, MlsEncode, MlsSize};
use mls_rs::MlsMessage;

use crate::prng::{mix, Prng};
use crate::types::*;
use crate::world::*;

pub struct Counting;

thread_local! {
    static ON: Cell<bool> = const { Cell::new(false) };
    static CUR: Cell<isize> = const { Cell::new(0) };
    static PEAK: Cell<isize> = const { Cell::new(0) };
}

unsafe impl GlobalAlloc for Counting {
    unsafe fn alloc(&self, layout: Layout) -> *mut u8 {
        let _ = ON.try_with(|on| {
            if on.get() {
                let _ = CUR.try_with(|c| {
                    let v = c.get() + layout.size() as isize;
                    c.set(v);
                    let _ = PEAK.try_with(|p| {
                        if v > p.get() {
                            p.set(v)
                        }
                    });
                });
            }
        });
        System.alloc(layout)
    }
    unsafe fn dealloc(&self, ptr: *mut u8, layout: Layout) {
        let _ = ON.try_with(|on| {
            if on.get() {
                let _ = CUR.try_with(|c| c.set(c.get() - layout.size() as isize));
            }
        });
        System.dealloc(ptr, layout)
    }
    unsafe fn realloc(&self, ptr: *mut u8, layout: Layout, new_size: usize) -> *mut u8 {
        let _ = ON.try_with(|on| {
            if on.get() {
                let _ = CUR.try_with(|c| {
                    let v = c.get() + new_size as isize - layout.size() as isize;
                    c.set(v);
                    let _ = PEAK.try_with(|p| {
                        if v > p.get() {
                            p.set(v)
                        }
                    });
                });
            }
        });
        System.realloc(ptr, layout, new_size)
    }
}

/// run f and return (result, peak bytes allocated above the starting level)
fn measured<T>(f: impl FnOnce() -> T) -> (T, usize) {
    CUR.with(|c| c.set(0));
    PEAK.with(|p| p.set(0));
    ON.with(|o| o.set(true));
    let r = f();
    ON.with(|o| o.set(false));
    let peak = PEAK.with(|p| p.get()).max(0) as usize;
    (r, peak)
}

fn viol(w: &World, oracle: &str, sig: String, detail: String) -> Violation {
    Violation::new(&w.cfg.property, oracle, sig, detail)
}

#[derive(Clone, Copy, PartialEq, Eq, Debug)]
enum Kind {
    Message,
    Tree,
    CommitSecrets,
    ExternalSnapshot,
    Snapshot,
    EpochRecord,
    CommitDescription,
}

fn kind_of(k: &str) -> Kind {
    match k {
        "tree" => Kind::Tree,
        "commit_secrets" => Kind::CommitSecrets,
        "external_snapshot" => Kind::ExternalSnapshot,
        "snapshot" => Kind::Snapshot,
        "epoch_record" => Kind::EpochRecord,
        "commit_description" => Kind::CommitDescription,
        _ => Kind::Message,
    }
}

/// decode `bytes` as `kind`; Ok((consumed, re-encoded, reported length))
fn decode(kind: Kind, bytes: &[u8]) -> Result<(usize, Vec<u8>, usize), String> {
    match kind {
        Kind::Message => {
            let mut s = bytes;
            let m = MlsMessage::mls_decode(&mut s).map_err(|e| format!("{e:?}"))?;
            let consumed = bytes.len() - s.len();
            let re = m.mls_encode_to_vec().map_err(|e| format!("{e:?}"))?;
            Ok((consumed, re, m.mls_encoded_len()))
        }
        Kind::CommitDescription => {
            let mut s = bytes;
            let d = mls_rs::group::CommitMessageDescription::mls_decode(&mut s).map_err(|e| format!("{e:?}"))?;
            let consumed = bytes.len() - s.len();
            let re = d.mls_encode_to_vec().map_err(|e| format!("{e:?}"))?;
            Ok((consumed, re, d.mls_encoded_len()))
        }
        Kind::Tree => {
            let t = mls_rs::group::ExportedTree::from_bytes(bytes).map_err(|e| format!("{e:?}"))?;
            let re = t.to_bytes().map_err(|e| format!("{e:?}"))?;
            let n = t.byte_size();
            Ok((re.len(), re, n))
        }
        Kind::CommitSecrets => {
            let s = mls_rs::group::CommitSecrets::from_bytes(bytes).map_err(|e| format!("{e:?}"))?;
            let re = s.to_bytes().map_err(|e| format!("{e:?}"))?;
            Ok((re.len(), re.clone(), re.len()))
        }
        Kind::ExternalSnapshot => {
            let s = mls_rs::external_client::ExternalSnapshot::from_bytes(bytes).map_err(|e| format!("{e:?}"))?;
            let re = s.to_bytes().map_err(|e| format!("{e:?}"))?;
            Ok((re.len(), re.clone(), re.len()))
        }
        Kind::Snapshot => {
            let c = mls_rs::group::verif_hooks::canonical_snapshot(bytes).map_err(|e| format!("{e:?}"))?;
            Ok((bytes.len(), bytes.to_vec(), c.len().max(1).min(bytes.len())))
        }
        Kind::EpochRecord => {
            let c = mls_rs::group::verif_hooks::canonical_epoch_record(bytes).map_err(|e| format!("{e:?}"))?;
            Ok((bytes.len(), bytes.to_vec(), c.len().max(1).min(bytes.len())))
        }
    }
}

/// every value the library produced: decode(encode(v)) re-encodes to the same bytes, consumes exactly the
/// bytes written and reports exactly that length
pub fn on_wire(w: &mut World, bytes: &[u8], kind_name: &str) -> VResult<()> {
    if !w.cfg.oracle("codec") {
        return Ok(());
    }
    let kind = kind_of(kind_name);
    let prop = w.cfg.property.clone();
    let r = guarded(&prop, "decode(produced bytes)", || decode(kind, bytes))?;
    w.stats.check("produced-bytes-round-trip");
    *w.stats.probes.entry(format!("codec-kind:{kind_name}")).or_default() += 1;
    if bytes.len() >= 16384 {
        w.stats.probe("codec-value-over-16KiB");
    } else if bytes.len() >= 64 {
        w.stats.probe("codec-value-over-64B");
    }
    match r {
        Err(e) => {
            return Err(viol(
                w,
                "round-trip",
                format!("produced-bytes-do-not-decode:{kind_name}"),
                format!("a {kind_name} value produced by the library ({} bytes) does not decode: {e}", bytes.len()),
            ))
        }
        Ok((consumed, re, reported)) => {
            if matches!(kind, Kind::Snapshot | Kind::EpochRecord) {
                // decoded through the hook only (types are crate-private)
            } else if consumed != bytes.len() || re != bytes || reported != bytes.len() {
                return Err(viol(
                    w,
                    "round-trip",
                    format!("round-trip-differs:{kind_name}"),
                    format!(
                        "{kind_name} ({} bytes): decoding consumed {consumed} bytes, re-encoding gives {} bytes (equal = {}), reported encoded length {reported}",
                        bytes.len(),
                        re.len(),
                        re == bytes
                    ),
                ));
            }
        }
    }
    // corrupted copies
    let n_mut = w.cfg.knob("codec-mutations").unwrap_or(4);
    let mut r = Prng::new(mix(&[w.seed, w.step_no as u64, bytes.len() as u64, w.ext.codec_seq]));
    w.ext.codec_seq += 1;
    for _ in 0..n_mut {
        let (m, name) = mutate(bytes, &mut r);
        if m == bytes {
            continue;
        }
        check_corrupted(w, kind, kind_name, &m, name)?;
    }
    Ok(())
}

fn mutate(bytes: &[u8], r: &mut Prng) -> (Vec<u8>, &'static str) {
    let mut b = bytes.to_vec();
    if b.is_empty() {
        return (vec![r.below(256) as u8], "C-RANDOM");
    }
    let len = b.len();
    match r.below(8) {
        0 | 1 => {
            let i = r.usize_below(len);
            b[i] ^= 1 << r.below(8);
            (b, "C-FLIP")
        }
        2 => {
            b.truncate(r.usize_below(len));
            (b, "C-TRUNC")
        }
        3 => {
            // inflate what may be a length prefix to a huge 4-byte length
            let i = r.usize_below(len.min(96));
            b.splice(i..i + 1, [0xbf, 0xff, 0xff, 0xff]);
            (b, "C-LEN-HUGE")
        }
        4 => {
            // non-minimal 2-byte form of a small 1-byte varint
            let cands: Vec<usize> = (0..len.min(200)).filter(|i| b[*i] < 64).collect();
            if cands.is_empty() {
                b[0] ^= 0xff;
                return (b, "C-FLIP");
            }
            let i = cands[r.usize_below(cands.len())];
            let v = b[i];
            b.splice(i..i + 1, [0x40, v]);
            (b, "C-LEN-NONMINIMAL")
        }
        5 => {
            // out-of-range discriminant / type code
            let i = r.usize_below(len.min(64));
            b[i] = 0xfe;
            (b, "C-DISCRIMINANT")
        }
        6 => {
            let n = r.usize_below(24) + 1;
            let tail = r.bytes(n);
            b.extend_from_slice(&tail);
            (b, "C-TAIL")
        }
        _ => {
            let n = r.usize_below(64) + 1;
            (r.bytes(n), "C-RANDOM")
        }
    }
}

fn check_corrupted(w: &mut World, kind: Kind, kind_name: &str, m: &[u8], mname: &'static str) -> VResult<()> {
    let prop = w.cfg.property.clone();
    w.stats.fault(mname);
    let (r, peak) = {
        let mut out = None;
        let g = guarded(&prop, "decode(corrupted bytes)", || {
            let (r, peak) = measured(|| decode(kind, m));
            out = Some((r, peak));
        });
        // stop counting even if the decoder panicked
        ON.with(|o| o.set(false));
        g?;
        out.unwrap()
    };
    w.stats.check("corrupted-bytes-decode-safely");
    let bound = 1024 * m.len() + 64 * 1024;
    if peak > bound {
        return Err(viol(
            w,
            "bounded-allocation",
            format!("allocation-beyond-bound:{kind_name}:{mname}"),
            format!("decoding {} corrupted bytes ({mname}) as {kind_name} allocated {peak} bytes at its peak (bound {bound})", m.len()),
        ));
    }
    if let Ok((consumed, re, reported)) = r {
        if matches!(kind, Kind::Snapshot | Kind::EpochRecord) {
            return Ok(());
        }
        w.stats.probe("corrupted-bytes-still-decode");
        let prefix_ok = consumed <= m.len() && re == m[..consumed.min(m.len())];
        // from_bytes-style decoders (tree, commit secrets, snapshot) take the whole input: consumed = re.len()
        if !prefix_ok && re.len() == consumed && consumed <= m.len() {
            // same bytes in another order: a hash-map backed part of a state value whose entries were not in key
            // order (the decoder does not insist on the canonical order the encoder writes)
            let mut a = re.clone();
            let mut b = m[..consumed].to_vec();
            a.sort_unstable();
            b.sort_unstable();
            if a == b {
                let sig = format!("noncanonical-map-order:{kind_name}");
                if w.known.iter().any(|k| *k == sig) {
                    w.ext.known_hits.push(sig);
                    return Ok(());
                }
                return Err(viol(
                    w,
                    "decode-reencode",
                    sig,
                    format!("{} corrupted bytes ({mname}) decode as {kind_name} although the entries of a map inside are not in the canonical (sorted) order: the value re-encodes to a permutation of the bytes consumed", m.len()),
                ));
            }
        }
        if !prefix_ok || reported != re.len() {
            return Err(viol(
                w,
                "decode-reencode",
                format!("decoded-value-reencodes-differently:{kind_name}:{mname}"),
                format!(
                    "{} corrupted bytes ({mname}) decode as {kind_name}, but the value re-encodes to {} bytes that are not the {consumed} bytes consumed (reported length {reported}); first difference at byte {} (input {:02x?} / re-encoded {:02x?})",
                    m.len(),
                    re.len(),
                    re.iter().zip(m.iter()).position(|(a, b)| a != b).unwrap_or(re.len().min(m.len())),
                    re.iter().zip(m.iter()).position(|(a, b)| a != b).map(|i| &m[i.saturating_sub(4)..(i + 6).min(m.len())]),
                    re.iter().zip(m.iter()).position(|(a, b)| a != b).map(|i| &re[i.saturating_sub(4)..(i + 6).min(re.len())]),
                ),
            ));
        }
    }
    Ok(())
}

/// S-FLIP: one stored byte of a member's snapshot or epoch record is flipped; loading must fail or succeed, never
/// panic and never allocate beyond the bound
pub fn do_stored_flip(w: &mut World, p: usize, g: usize, pick: u64) -> VResult<bool> {
    if g >= w.groups.len() || p >= w.parties.len() {
        return Ok(false);
    }
    let gid = w.groups[g].gid.clone();
    let view = w.parties[p].gstore.view(&gid);
    let Some(state) = view.state.clone() else { return Ok(false) };
    let prop = w.cfg.property.clone();
    // produced stored bytes round-trip through the hook decoders
    on_wire(w, &state, "snapshot")?;
    for (_, e) in view.epochs.iter() {
        on_wire(w, e, "epoch_record")?;
    }
    // flip on a fork of the disk, then load
    let faults: crate::seams::Faults = Default::default();
    let fork = w.parties[p].gstore.fork(faults.clone());
    let pos = (pick as usize) % state.len();
    let bit = ((pick >> 32) % 8) as u8;
    fork.corrupt_state(&gid, |b| {
        let i = pos % b.len();
        b[i] ^= 1 << bit;
    });
    let party = &w.parties[p];
    let client = make_client(
        &party.crypto,
        &party.identity,
        &party.rules,
        &fork,
        &party.kpstore.fork(faults.clone()),
        &party.pskstore.fork(faults),
        &party.signing_identity,
        &party.signer,
        w.suite,
    );
    w.stats.fault("S-FLIP");
    let mut peak = 0usize;
    let r = guarded(&prop, "load_group(flipped stored byte)", || {
        let (r, pk) = measured(|| client.load_group(&gid).map(|_| ()));
        peak = pk;
        r
    });
    ON.with(|o| o.set(false));
    let r = r?;
    w.stats.check("flipped-stored-byte-loads-safely");
    let bound = 1024 * state.len() + 64 * 1024 + 4 * 1024 * 1024;
    if peak > bound {
        return Err(viol(
            w,
            "bounded-allocation",
            "allocation-beyond-bound:load_group".into(),
            format!("load_group on a snapshot of {} bytes with one flipped bit allocated {peak} bytes at its peak", state.len()),
        ));
    }
    *w.stats.probes.entry(format!("stored-flip-load:{}", if r.is_ok() { "ok" } else { "err" })).or_default() += 1;
    Ok(true)
}


/// C12 at the value level: member p proposes a custom proposal whose type lies on or near the boundary between
/// the RFC-defined types and the private range. Either the library refuses to produce it, or what it produced reads
/// back - at a receiver and from the sender's own stored state - as the custom proposal that was put in.
pub fn do_custom_type(w: &mut World, p: usize, g: usize, pick: u64) -> VResult<bool> {
    use mls_rs::group::proposal::{CustomProposal, Proposal, ProposalType};
    use mls_rs::group::ReceivedMessage;
    if !w.live(p, g) || w.parties[p].mems[g].pending.is_some() {
        return Ok(false);
    }
    let Some(epoch) = w.epoch_of(p, g) else { return Ok(false) };
    if epoch != w.groups[g].log.len() as u64 || w.groups[g].reinit_at.is_some() {
        return Ok(false);
    }
    let types: [u16; 18] = [0, 1, 2, 3, 4, 5, 6, 7, 8, 9, 10, 11, 0x0A0A, 0x7FFF, 0xEFFF, 0xF000, 0xF001, 0xFFFF];
    let t = types[(pick % types.len() as u64) as usize];
    let lens = [0usize, 1, 3, 63, 64, 300];
    let data: Vec<u8> = (0..lens[((pick >> 8) % lens.len() as u64) as usize]).map(|i| (i as u8) ^ (pick as u8)).collect();
    let prop = w.cfg.property.clone();
    let mut sender = w.parties[p].mems[g].group.clone().unwrap();
    let r = guarded(&prop, "propose_custom(boundary type)", || {
        sender.propose_custom(CustomProposal::new(ProposalType::new(t), data.clone()), vec![])
    })?;
    w.stats.op("custom_type");
    let msg = match r {
        Ok(m) => m,
        Err(e) => {
            *w.stats.probes.entry(format!("custom-type-refused:{t:#06x}:{}", err_class(&e))).or_default() += 1;
            return Ok(true);
        }
    };
    *w.stats.probes.entry(format!("custom-type-produced:{t:#06x}")).or_default() += 1;
    let bytes = msg.to_bytes().unwrap_or_default();
    on_wire(w, &bytes, "mls_message")?;
    w.stats.check("custom-proposal-reads-back-as-sent");
    // the sender's state with the proposal in its cache can be stored and loaded again
    if let Ok(snap) = sender.verif_snapshot_bytes() {
        if mls_rs::group::verif_hooks::canonical_snapshot(&snap).is_err() {
            return Err(viol(
                w,
                "round-trip",
                format!("snapshot-with-custom-proposal-does-not-decode:{t:#06x}"),
                format!("P{p}: after propose_custom(type {t:#06x}) the member's snapshot no longer decodes"),
            ));
        }
    }
    let receivers: Vec<usize> = w.live_members(g).into_iter().filter(|q| *q != p && w.epoch_of(*q, g) == Some(epoch)).collect();
    let Some(q) = receivers.first().copied() else { return Ok(true) };
    let mut rg = w.parties[q].mems[g].group.clone().unwrap();
    let now = w.now();
    let res = guarded(&prop, "process_incoming_message(custom proposal)", || {
        rg.process_incoming_message_with_time(MlsMessage::from_bytes(&bytes)?, now)
    })?;
    match res {
        Ok(ReceivedMessage::Proposal(d)) => match &d.proposal {
            Proposal::Custom(c) if c.proposal_type() == ProposalType::new(t) && c.data() == &data[..] => Ok(true),
            other => Err(viol(
                w,
                "round-trip",
                format!("custom-proposal-value-changed:{t:#06x}"),
                format!(
                    "P{p} proposed a custom proposal of type {t:#06x} with {} bytes of data; P{q} reads the message as {}",
                    data.len(),
                    match other {
                        Proposal::Custom(c) => format!("a custom proposal of type {:#06x} with {} bytes", c.proposal_type().raw_value(), c.data().len()),
                        o => format!("a proposal of type {:#06x}", o.proposal_type().raw_value()),
                    }
                ),
            )),
        },
        Ok(_) => Err(viol(
            w,
            "round-trip",
            format!("custom-proposal-value-changed:{t:#06x}"),
            format!("P{p} proposed a custom proposal of type {t:#06x}; P{q} does not read the message as a proposal"),
        )),
        Err(e) => {
            *w.stats.probes.entry(format!("custom-type-receiver-refused:{t:#06x}:{}", err_class(&e))).or_default() += 1;
            Ok(true)
        }
    }
}
