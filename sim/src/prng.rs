//! The one source of pseudo-randomness of the simulator: SplitMix64 seeding + xoshiro256**.
//! Written out here so the stream does not depend on any crate version.

#[derive(Clone, Debug, PartialEq, Eq)]
pub struct Prng {
    s: [u64; 4],
}

pub fn splitmix(x: &mut u64) -> u64 {
    *x = x.wrapping_add(0x9E37_79B9_7F4A_7C15);
    let mut z = *x;
    z = (z ^ (z >> 30)).wrapping_mul(0xBF58_476D_1CE4_E5B9);
    z = (z ^ (z >> 27)).wrapping_mul(0x94D0_49BB_1331_11EB);
    z ^ (z >> 31)
}

/// Mix several integers into one seed (order matters).
pub fn mix(parts: &[u64]) -> u64 {
    let mut acc = 0x243F_6A88_85A3_08D3u64;
    for p in parts {
        acc ^= *p;
        let mut x = acc;
        acc = splitmix(&mut x) ^ acc.rotate_left(23);
    }
    acc
}

pub fn hash_str(s: &str) -> u64 {
    let mut h = 0xcbf2_9ce4_8422_2325u64;
    for b in s.bytes() {
        h ^= b as u64;
        h = h.wrapping_mul(0x100_0000_01b3);
    }
    h
}

impl Prng {
    pub fn new(seed: u64) -> Self {
        let mut x = seed;
        let s = [
            splitmix(&mut x),
            splitmix(&mut x),
            splitmix(&mut x),
            splitmix(&mut x),
        ];
        Prng { s }
    }

    pub fn derive(&self, tag: u64) -> Prng {
        Prng::new(mix(&[self.s[0], self.s[1], self.s[2], self.s[3], tag]))
    }

    pub fn next_u64(&mut self) -> u64 {
        let r = self.s[1].wrapping_mul(5).rotate_left(7).wrapping_mul(9);
        let t = self.s[1] << 17;
        self.s[2] ^= self.s[0];
        self.s[3] ^= self.s[1];
        self.s[1] ^= self.s[2];
        self.s[0] ^= self.s[3];
        self.s[2] ^= t;
        self.s[3] = self.s[3].rotate_left(45);
        r
    }

    /// Uniform in 0..n (n > 0).
    pub fn below(&mut self, n: u64) -> u64 {
        debug_assert!(n > 0);
        // multiply-shift; bias is irrelevant for a simulator
        ((self.next_u64() as u128 * n as u128) >> 64) as u64
    }

    pub fn range(&mut self, lo: u64, hi_incl: u64) -> u64 {
        lo + self.below(hi_incl - lo + 1)
    }

    pub fn usize_below(&mut self, n: usize) -> usize {
        self.below(n as u64) as usize
    }

    /// True with probability num/den.
    pub fn chance(&mut self, num: u64, den: u64) -> bool {
        self.below(den) < num
    }

    pub fn fill(&mut self, out: &mut [u8]) {
        for chunk in out.chunks_mut(8) {
            let v = self.next_u64().to_le_bytes();
            chunk.copy_from_slice(&v[..chunk.len()]);
        }
    }

    pub fn bytes(&mut self, n: usize) -> Vec<u8> {
        let mut v = vec![0u8; n];
        self.fill(&mut v);
        v
    }

    pub fn pick<'a, T>(&mut self, items: &'a [T]) -> &'a T {
        &items[self.usize_below(items.len())]
    }

    /// Pick an index according to integer weights (sum > 0).
    pub fn weighted(&mut self, weights: &[u32]) -> usize {
        let total: u64 = weights.iter().map(|w| *w as u64).sum();
        let mut r = self.below(total.max(1));
        for (i, w) in weights.iter().enumerate() {
            if r < *w as u64 {
                return i;
            }
            r -= *w as u64;
        }
        weights.len() - 1
    }

    pub fn shuffle<T>(&mut self, v: &mut [T]) {
        for i in (1..v.len()).rev() {
            let j = self.usize_below(i + 1);
            v.swap(i, j);
        }
    }
}
