//! C14, X.509 part: the three shipped credential validators judge the same generated certificate chain, trust
//! anchors and validation time. The chain shape, the validity windows, the injected defect and the validation time
//! (the simulated clock, placed on and around every validity boundary) come from the run PRNG; the certificates
//! themselves are made with OpenSSL (fresh P-256 / Ed25519 keys, so their bytes differ between runs, the verdicts
//! do not).

use mls_rs::time::MlsTime;
use mls_rs_identity_x509::{CertificateChain, DerCertificate, X509CredentialValidator};
use openssl::asn1::Asn1Time;
use openssl::bn::BigNum;
use openssl::ec::{EcGroup, EcKey};
use openssl::hash::MessageDigest;
use openssl::nid::Nid;
use openssl::pkey::{PKey, Private};
use openssl::x509::extension::{BasicConstraints, KeyUsage};
use openssl::x509::{X509Builder, X509NameBuilder, X509};

use crate::prng::{mix, Prng};
use crate::types::*;
use crate::world::*;

struct Cert {
    der: Vec<u8>,
    nb: u64,
    na: u64,
}

fn key(ed: bool) -> Option<PKey<Private>> {
    if ed {
        PKey::generate_ed25519().ok()
    } else {
        let g = EcGroup::from_curve_name(Nid::X9_62_PRIME256V1).ok()?;
        PKey::from_ec_key(EcKey::generate(&g).ok()?).ok()
    }
}

fn digest(ed: bool) -> MessageDigest {
    if ed {
        // EdDSA signs the message itself: no digest
        unsafe { MessageDigest::from_ptr(std::ptr::null()) }
    } else {
        MessageDigest::sha256()
    }
}

const KU_DIGITAL_SIGNATURE: u8 = 1;
const KU_KEY_CERT_SIGN: u8 = 2;
const KU_CRL_SIGN: u8 = 4;

/// extensions of a generated certificate: basicConstraints (None = no extension, Some(ca)), the path length
/// constraint, the key usage bits (0 = no extension)
#[derive(Clone, Copy)]
struct Shape {
    bc: Option<bool>,
    pathlen: Option<u32>,
    ku: u8,
}

impl Shape {
    const CA: Shape = Shape { bc: Some(true), pathlen: None, ku: KU_KEY_CERT_SIGN | KU_CRL_SIGN };
    const LEAF: Shape = Shape { bc: None, pathlen: None, ku: KU_DIGITAL_SIGNATURE };
    /// a CA certificate that RFC 5280 lets issue the `below` CA certificates under it: the usual one, or one with
    /// keyCertSign only, without key usage extension, with more usages, with a sufficient path length constraint
    fn valid_ca(r: &mut Prng, below: u32) -> Shape {
        let ku = *r.pick(&[
            KU_KEY_CERT_SIGN | KU_CRL_SIGN,
            KU_KEY_CERT_SIGN | KU_CRL_SIGN,
            KU_KEY_CERT_SIGN,
            0,
            KU_KEY_CERT_SIGN | KU_CRL_SIGN | KU_DIGITAL_SIGNATURE,
        ]);
        let pathlen = match r.below(4) {
            0 => Some(below),
            1 => Some(below + 1 + r.below(3) as u32),
            _ => None,
        };
        Shape { bc: Some(true), pathlen, ku }
    }
}

#[allow(clippy::too_many_arguments)]
fn make_cert(
    subject: &str,
    issuer: &str,
    subject_key: &PKey<Private>,
    issuer_key: &PKey<Private>,
    ed: bool,
    shape: Shape,
    nb: u64,
    na: u64,
    serial: u32,
) -> Option<Cert> {
    let name = |cn: &str| {
        let mut b = X509NameBuilder::new().ok()?;
        b.append_entry_by_nid(Nid::COMMONNAME, cn).ok()?;
        Some(b.build())
    };
    let mut b = X509Builder::new().ok()?;
    b.set_version(2).ok()?;
    let sn = BigNum::from_u32(serial).ok()?.to_asn1_integer().ok()?;
    b.set_serial_number(&sn).ok()?;
    let (sname, iname) = (name(subject)?, name(issuer)?);
    b.set_subject_name(&sname).ok()?;
    b.set_issuer_name(&iname).ok()?;
    b.set_pubkey(subject_key).ok()?;
    let (tb, ta) = (Asn1Time::from_unix(nb as i64).ok()?, Asn1Time::from_unix(na as i64).ok()?);
    b.set_not_before(&tb).ok()?;
    b.set_not_after(&ta).ok()?;
    match shape.bc {
        Some(true) => {
            let mut bc = BasicConstraints::new();
            bc.critical().ca();
            if let Some(n) = shape.pathlen {
                bc.pathlen(n);
            }
            b.append_extension(bc.build().ok()?).ok()?;
        }
        Some(false) => {
            b.append_extension(BasicConstraints::new().critical().build().ok()?).ok()?;
        }
        None => {}
    }
    if shape.ku != 0 {
        let mut ku = KeyUsage::new();
        ku.critical();
        if shape.ku & KU_DIGITAL_SIGNATURE != 0 {
            ku.digital_signature();
        }
        if shape.ku & KU_KEY_CERT_SIGN != 0 {
            ku.key_cert_sign();
        }
        if shape.ku & KU_CRL_SIGN != 0 {
            ku.crl_sign();
        }
        b.append_extension(ku.build().ok()?).ok()?;
    }
    b.sign(issuer_key, digest(ed)).ok()?;
    let x: X509 = b.build();
    Some(Cert {
        der: x.to_der().ok()?,
        nb,
        na,
    })
}

fn viol(w: &World, oracle: &str, sig: String, detail: String) -> Violation {
    Violation::new(&w.cfg.property, oracle, sig, detail)
}

const FAULTS: [&str; 9] = [
    "none",
    "none",
    "root-appended",
    "wrong-issuer-signature",
    "missing-intermediate",
    "reordered-intermediates",
    "non-ca-issuer",
    "unknown-root",
    "none",
];

pub fn do_x509_case(w: &mut World, a: u64, b: u64, c: u64) -> VResult<bool> {
    let mut r = Prng::new(mix(&[w.seed, 0x0509, a]));
    let ed = r.chance(1, 2);
    let n_int = r.below(3) as usize; // 0, 1 or 2 intermediates
    let mut fault = FAULTS[(c % FAULTS.len() as u64) as usize];
    if (fault == "missing-intermediate" || fault == "non-ca-issuer") && n_int == 0 {
        fault = "none";
    }
    if fault == "reordered-intermediates" && n_int < 2 {
        fault = "none";
    }
    // validity windows: all contain [base + 2000, base + 3000]
    let base = 1_600_000_000 + r.below(200_000_000);
    let window = |r: &mut Prng| (base + r.below(2000), base + 3000 + r.below(100_000));
    let (Some(root_key), Some(other_key)) = (key(ed), key(ed)) else { return Ok(false) };
    let rw = window(&mut r);
    // (shapes come from their own generator: the rest of the case is drawn as before)
    let mut rs = Prng::new(mix(&[w.seed, 0x5a9e, a]));
    let root_shape = Shape::valid_ca(&mut rs, n_int as u32);
    let Some(root) = make_cert("sim root", "sim root", &root_key, &root_key, ed, root_shape, rw.0, rw.1, 1) else {
        return Ok(false);
    };
    let Some(other_root) = make_cert("other root", "other root", &other_key, &other_key, ed, Shape::CA, rw.0, rw.1, 2) else {
        return Ok(false);
    };
    // intermediates from the root downwards
    let mut issuer_name = "sim root".to_string();
    let mut issuer_key = root_key.clone();
    let mut ints: Vec<Cert> = vec![];
    let bad_at = r.usize_below(n_int + 1); // which certificate (0 = closest to the root ... n_int = leaf) carries the defect
    let mut fault_detail = "";
    for i in 0..n_int {
        let Some(k) = key(ed) else { return Ok(false) };
        let wnd = window(&mut r);
        let name = format!("sim intermediate {i}");
        let signer = if fault == "wrong-issuer-signature" && bad_at == i { &other_key } else { &issuer_key };
        let below = (n_int - 1 - i) as u32; // CA certificates under this one
        let mut shape = Shape::valid_ca(&mut rs, below);
        if fault == "non-ca-issuer" && bad_at.min(n_int - 1) == i {
            // an issuer that may not issue: not a CA, no basicConstraints, a CA whose key usage lacks keyCertSign,
            // a CA whose path length constraint is exceeded
            let kind = rs.below(if below > 0 { 6 } else { 5 });
            shape = match kind {
                0 => Shape { bc: Some(false), pathlen: None, ku: KU_DIGITAL_SIGNATURE },
                1 => Shape { bc: None, pathlen: None, ku: KU_DIGITAL_SIGNATURE },
                2 => Shape { bc: None, pathlen: None, ku: KU_KEY_CERT_SIGN | KU_CRL_SIGN },
                3 => Shape { bc: Some(true), pathlen: None, ku: KU_CRL_SIGN },
                4 => Shape { bc: Some(true), pathlen: None, ku: KU_CRL_SIGN | KU_DIGITAL_SIGNATURE },
                _ => Shape { bc: Some(true), pathlen: Some(below - 1), ku: KU_KEY_CERT_SIGN | KU_CRL_SIGN },
            };
            fault_detail = ["not-a-ca", "no-basic-constraints", "no-basic-constraints", "ca-without-key-cert-sign", "ca-without-key-cert-sign", "path-length-exceeded"][kind as usize];
        }
        let Some(cert) = make_cert(&name, &issuer_name, &k, signer, ed, shape, wnd.0, wnd.1, 10 + i as u32) else {
            return Ok(false);
        };
        ints.push(cert);
        issuer_name = name;
        issuer_key = k;
    }
    let Some(leaf_key) = key(ed) else { return Ok(false) };
    let lw = window(&mut r);
    let signer = if fault == "wrong-issuer-signature" && bad_at == n_int { &other_key } else { &issuer_key };
    let Some(leaf) = make_cert("sim member", &issuer_name, &leaf_key, signer, ed, Shape::LEAF, lw.0, lw.1, 100) else {
        return Ok(false);
    };
    // chain as sent: leaf first, then the intermediates from the leaf's issuer upwards
    let mut chain: Vec<&Cert> = vec![&leaf];
    let mut up: Vec<&Cert> = ints.iter().rev().collect();
    match fault {
        "missing-intermediate" => {
            up.remove(r.usize_below(up.len()));
        }
        "reordered-intermediates" => up.reverse(),
        _ => {}
    }
    chain.extend(up);
    if fault == "root-appended" {
        chain.push(&root);
    }
    let anchors = if fault == "unknown-root" { vec![other_root.der.clone()] } else { vec![root.der.clone()] };
    // validation time: on and around a boundary of one of the certificates, or inside every window
    let mut all: Vec<&Cert> = vec![&leaf];
    all.extend(ints.iter());
    all.push(&root);
    let pick = all[(b / 8) as usize % all.len()];
    let t = match b % 8 {
        0 => pick.nb - 1,
        1 => pick.nb,
        2 => pick.nb + 1,
        3 => pick.na - 1,
        4 => pick.na,
        5 => pick.na + 1,
        _ => base + 2000 + (b / 8) % 1000,
    };
    let inside = |c: &Cert| c.nb <= t && t <= c.na;
    let path_in_time = inside(&leaf) && ints.iter().all(inside);
    let root_in_time = inside(&root);
    let on_boundary = all.iter().any(|c| t == c.nb || t == c.na);
    // the model: RFC 5280 §6.1 for the certificates of the path; the validity of the trust anchor itself is
    // not part of path validation there, so a time outside the anchor's window only asks for agreement
    let structurally_valid = matches!(fault, "none" | "root-appended");
    let model: Option<bool> = if !structurally_valid || !path_in_time {
        Some(false)
    } else if root_in_time {
        Some(true)
    } else {
        None
    };
    // "reordered": RFC 9420 §5.3 wants every certificate to certify the one before it, while a path-building
    // validator can still find the path; only agreement is asked for
    let model = if fault == "reordered-intermediates" { None } else { model };

    let ders: Vec<DerCertificate> = chain.iter().map(|c| DerCertificate::from(c.der.clone())).collect();
    let cchain = CertificateChain::from(ders);
    let roots: Vec<DerCertificate> = anchors.iter().map(|d| DerCertificate::from(d.clone())).collect();
    let time = Some(MlsTime::from(t));
    let prop = w.cfg.property.clone();

    let leaf_pub: Vec<u8> = if ed {
        leaf_key.raw_public_key().unwrap_or_default()
    } else {
        let ec = leaf_key.ec_key().ok();
        let mut ctx = openssl::bn::BigNumContext::new().ok();
        match (ec, ctx.as_mut()) {
            (Some(ec), Some(ctx)) => ec
                .public_key()
                .to_bytes(ec.group(), openssl::ec::PointConversionForm::UNCOMPRESSED, ctx)
                .unwrap_or_default(),
            _ => vec![],
        }
    };

    let mut verdicts: Vec<(&str, bool, String)> = vec![];
    macro_rules! judge {
        ($name:expr, $make:expr) => {{
            let c2 = cchain.clone();
            let r2 = roots.clone();
            let v = guarded(&prop, concat!($name, " validate_chain"), || {
                Ok::<Result<Vec<u8>, String>, mls_rs::error::MlsError>(match $make(r2) {
                    Ok(v) => X509CredentialValidator::validate_chain(&v, &c2, time)
                        .map(|k| k.as_ref().to_vec())
                        .map_err(|e| format!("{e:?}")),
                    Err(e) => Err(format!("validator could not be created: {e:?}")),
                })
            })?;
            match v {
                Ok(Ok(k)) => verdicts.push(($name, true, hex::encode(k))),
                Ok(Err(e)) => verdicts.push(($name, false, e)),
                Err(e) => verdicts.push(($name, false, format!("{e:?}"))),
            }
        }};
    }
    judge!("rustcrypto", |r: Vec<DerCertificate>| mls_rs_crypto_rustcrypto::x509::X509Validator::new(r));
    judge!("openssl", |r: Vec<DerCertificate>| mls_rs_crypto_openssl::x509::X509Validator::new(r));
    judge!("awslc", |r: Vec<DerCertificate>| mls_rs_crypto_awslc::x509::CertificateValidator::new_der(&r));
    w.stats.op("x509_case");
    let time_case = if !path_in_time {
        "path-out-of-window"
    } else if !root_in_time {
        "anchor-out-of-window"
    } else if all.iter().any(|c| t == c.na) {
        "at-not-after"
    } else if on_boundary {
        "at-not-before"
    } else {
        "in-window"
    };
    *w.stats.probes.entry(format!("x509:{fault}:{time_case}")).or_default() += 1;
    if !fault_detail.is_empty() {
        *w.stats.probes.entry(format!("x509:issuer-{fault_detail}")).or_default() += 1;
    }
    if fault != "none" {
        w.stats.fault(match fault {
            "wrong-issuer-signature" => "X-BAD-SIGNATURE",
            "missing-intermediate" => "X-MISSING-INTERMEDIATE",
            "reordered-intermediates" => "X-REORDERED",
            "non-ca-issuer" => "X-NON-CA-ISSUER",
            "unknown-root" => "X-UNKNOWN-ROOT",
            _ => "X-ROOT-APPENDED",
        });
    }
    let pattern: Vec<String> = verdicts.iter().map(|(n, ok, _)| format!("{n}={}", if *ok { "accept" } else { "reject" })).collect();
    w.ev(format!(
        "x509 case alg={} ints={n_int} fault={fault} time={time_case} -> {}",
        if ed { "ed25519" } else { "p256" },
        pattern.join(",")
    ));
    let alg = if ed { "ed25519" } else { "p256" };
    w.stats.check("x509-verdicts-agree");
    if verdicts.iter().any(|v| v.1 != verdicts[0].1) {
        let sig = if structurally_valid {
            format!("x509-verdicts-differ:{fault}:{time_case}:{}", pattern.join(","))
        } else {
            format!("x509-verdicts-differ:{fault}{}{fault_detail}:{}", if fault_detail.is_empty() { "" } else { ":" }, pattern.join(","))
        };
        if w.known.iter().any(|k| *k == sig) {
            w.ext.known_hits.push(sig);
            return Ok(true);
        }
        return Err(viol(
            w,
            "x509-verdicts-agree",
            sig,
            format!(
                "the validators disagree on a {alg} chain with {n_int} intermediate(s), defect `{fault}` {fault_detail}, validation time {t} ({time_case}): {}",
                verdicts.iter().map(|(n, ok, d)| format!("{n}: {}", if *ok { "accept".to_string() } else { format!("reject ({d})") })).collect::<Vec<_>>().join("; ")
            ),
        ));
    }
    if let Some(m) = model {
        w.stats.check("x509-verdict-correct");
        if verdicts[0].1 != m {
            return Err(viol(
                w,
                "x509-verdict-correct",
                format!("x509-verdict-wrong:{fault}{}{fault_detail}:{time_case}:{}", if fault_detail.is_empty() { "" } else { ":" }, if m { "should-accept" } else { "should-reject" }),
                format!(
                    "all validators {} a {alg} chain with {n_int} intermediate(s), defect `{fault}` {fault_detail}, validation time {t} ({time_case}); leaf window [{}, {}]",
                    if verdicts[0].1 { "accept" } else { "reject" },
                    leaf.nb,
                    leaf.na
                ),
            ));
        }
    }
    if verdicts[0].1 && !leaf_pub.is_empty() {
        w.stats.check("x509-returned-key-is-leaf-key");
        for (n, _, k) in &verdicts {
            if *k != hex::encode(&leaf_pub) {
                return Err(viol(
                    w,
                    "x509-returned-key",
                    format!("x509-wrong-public-key:{n}"),
                    format!("{n} accepted the chain but returned a public key that is not the leaf's"),
                ));
            }
        }
    }
    Ok(true)
}
