//! Known findings: genuine defects that are recorded rather than repaired (see DESIGN §7).
//! The file is read only; it is never written at run time.

use serde::Deserialize;

#[derive(Clone, Debug, Deserialize)]
pub struct Known {
    pub property: String,
    pub signature: String,
    pub what: String,
    /// the damaged member must not be put back to its pre-operation clone (the effect is durable)
    #[serde(default)]
    pub no_restore: bool,
}

#[derive(Clone, Debug, Deserialize, Default)]
pub struct KnownFile {
    #[serde(default)]
    pub known: Vec<Known>,
    #[serde(default)]
    pub fixed: Vec<serde_json::Value>,
}

pub fn path() -> String {
    std::env::var("VERIF_KNOWN").unwrap_or_else(|_| "/verif/known_findings.json".to_string())
}

pub fn load() -> KnownFile {
    match std::fs::read(path()) {
        Ok(d) => serde_json::from_slice(&d).unwrap_or_default(),
        Err(_) => KnownFile::default(),
    }
}

pub fn signatures_for(property: &str) -> Vec<String> {
    load()
        .known
        .into_iter()
        .filter(|k| k.property == property)
        .map(|k| k.signature)
        .collect()
}

pub fn no_restore(signature: &str) -> bool {
    load()
        .known
        .iter()
        .any(|k| k.signature == signature && k.no_restore)
}
