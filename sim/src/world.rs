//! The simulated world: parties, delivery service, clock, action execution, model bookkeeping.
//! Property-specific oracles live in `oracles.rs` and are called from the hooks at the bottom.

use std::collections::{BTreeMap, BTreeSet};
use std::panic::{catch_unwind, AssertUnwindSafe};
use std::sync::{Arc, Mutex};

use mls_rs::crypto::{SignaturePublicKey, SignatureSecretKey};
use mls_rs::error::MlsError;
use mls_rs::group::{CommitEffect, ReceivedMessage};
use mls_rs::identity::basic::BasicCredential;
use mls_rs::identity::SigningIdentity;
use mls_rs::mls_rules::{CommitOptions, EncryptionOptions};
use mls_rs::time::MlsTime;
use mls_rs::{CipherSuite, CipherSuiteProvider, CryptoProvider, ExtensionList, MlsMessage};
use sha2::{Digest, Sha256};

use crate::crypto::{self, CryptoCtx, ProviderKind, SimCrypto};
use crate::prng::{mix, Prng};
use crate::seams::*;
use crate::types::*;

pub const T0: u64 = 1_800_000_000;

#[derive(Clone, Debug, PartialEq, Eq)]
pub enum MsgKind {
    Commit,
    Proposal,
    App,
}

#[derive(Clone, Debug)]
pub struct Msg {
    pub id: u64,
    pub g: usize,
    pub kind: MsgKind,
    pub bytes: Vec<u8>,
    pub sender: usize,
    pub epoch: u64,
    pub payload: Vec<u8>,
    pub aad: Vec<u8>,
    pub refs: Vec<u64>,
    /// (party, welcome bytes)
    pub welcomes: Vec<(usize, Vec<u8>)>,
    pub oob_tree: Option<Vec<u8>>,
    pub external: bool,
    pub ext_psks: Vec<u8>,
    pub res_psks: Vec<u64>,
    pub private: bool,
    pub spec: Option<CommitSpec>,
    pub pspec: Option<PropSpec>,
    pub time: u64,
    /// generation of the sender's ratchet this private message was encrypted with (model)
    pub gen: u32,
}

#[derive(Clone, Debug, PartialEq, Eq)]
pub struct EpochRec {
    pub ctx: Vec<u8>,
    pub tree: Vec<u8>,
    /// (leaf index, identity bytes, signature key)
    pub roster: Vec<(u32, Vec<u8>, Vec<u8>)>,
    pub auth: Vec<u8>,
    pub exports: Vec<Vec<u8>>,
    pub first: usize,
}

#[derive(Default)]
pub struct GroupTruth {
    pub gid: Vec<u8>,
    /// log[e] = winning commit that moves epoch e -> e+1
    pub log: Vec<u64>,
    pub candidates: BTreeMap<u64, Vec<u64>>,
    pub losers: Vec<u64>,
    pub records: BTreeMap<u64, EpochRec>,
    /// party -> leaf index, per epoch (from the canonical roster)
    pub members: BTreeMap<u64, BTreeMap<usize, u32>>,
    pub props: BTreeMap<u64, Vec<u64>>,
    pub apps: Vec<u64>,
    pub reinit_at: Option<u64>,
    /// commits their committer withdrew (clear_pending_commit) before the DS decided
    pub withdrawn: Vec<u64>,
}

#[derive(Clone, Debug, PartialEq, Eq)]
pub enum Status {
    Never,
    Invited,
    Member,
    Removed,
    Stuck(String),
}

#[derive(Clone, Default)]
pub struct Durable {
    pub cached: BTreeSet<u64>,
    pub pending: Option<u64>,
    pub accepted: BTreeSet<u64>,
    pub valid: bool,
    pub sent_gen: BTreeMap<(u64, bool), u32>,
    pub ratchet_pos: BTreeMap<(usize, u64, bool), u32>,
    /// proposals taken and then dropped with clear_proposal_cache before this write (their keys are spent on disk too)
    pub cleared: BTreeSet<u64>,
}

/// write a member's group: with its tree, or (knob tree-oob) without it, the tree being kept by the application
pub fn write_group(group: &mut SimGroup, oob: bool) -> Result<(), MlsError> {
    if oob {
        group.write_to_storage_without_ratchet_tree()
    } else {
        group.write_to_storage()
    }
}

/// load a member's group: from storage alone, or with the tree the application kept
pub fn load_group_oob(client: &SimClient, gid: &[u8], tree: Option<&[u8]>) -> Result<SimGroup, MlsError> {
    match tree {
        Some(t) => client.load_group_with_ratchet_tree(gid, mls_rs::group::ExportedTree::from_bytes(t)?),
        None => client.load_group(gid),
    }
}

pub struct Mem {
    pub group: Option<SimGroup>,
    pub status: Status,
    pub inbox: Vec<u64>,
    pub removed_obj: Option<SimGroup>,
    pub pending: Option<u64>,
    pub ext_pending: Option<(SimGroup, u64)>,
    /// (commit msg id, welcome bytes, out-of-band tree)
    pub welcome: Option<(u64, Vec<u8>, Option<Vec<u8>>)>,
    pub cached: BTreeSet<u64>,
    pub accepted: BTreeSet<u64>,
    pub durable: Durable,
    pub join_epoch: u64,
    pub detached: Vec<(u64, Vec<u8>)>,
    /// private messages sent since the last write (a crash now rolls the sender's ratchet back)
    pub unwritten_sends: u32,
    /// the epochs in which private messages were sent since the last write (a crash rolls those ratchets back)
    pub unwritten_epochs: BTreeSet<u64>,
    /// next generation of this member's own ratchets: (epoch, application?) -> generation
    pub sent_gen: BTreeMap<(u64, bool), u32>,
    /// receiver side: next expected generation per (sender, epoch, application?)
    pub ratchet_pos: BTreeMap<(usize, u64, bool), u32>,
    /// retention model (C19): prior epochs on disk as of the last write / entered since that write
    pub ret_disk: BTreeSet<u64>,
    pub ret_pending: BTreeSet<u64>,
    /// prior epochs recorded without secrets (the epoch an external joiner joined from)
    pub ret_nosecret: BTreeSet<u64>,
    pub rejoined_same_storage: bool,
    /// reference of the key package this member joined with, until its first write (C07)
    pub join_kp: Option<Vec<u8>>,
    /// knob tree-oob: the ratchet tree the application stored next to the (tree-less) group state at the last write
    pub tree_disk: Option<Vec<u8>>,
}

impl Default for Mem {
    fn default() -> Self {
        Mem {
            group: None,
            status: Status::Never,
            inbox: vec![],
            removed_obj: None,
            pending: None,
            ext_pending: None,
            welcome: None,
            cached: Default::default(),
            accepted: Default::default(),
            durable: Default::default(),
            join_epoch: 0,
            detached: vec![],
            unwritten_sends: 0,
            unwritten_epochs: Default::default(),
            sent_gen: Default::default(),
            ratchet_pos: Default::default(),
            ret_disk: Default::default(),
            ret_pending: Default::default(),
            ret_nosecret: Default::default(),
            rejoined_same_storage: false,
            join_kp: None,
            tree_disk: None,
        }
    }
}

pub struct Party {
    pub idx: usize,
    pub name: Vec<u8>,
    pub provider: ProviderKind,
    pub ctx: Arc<CryptoCtx>,
    pub faults: Faults,
    pub gstore: SimGroupStorage,
    pub kpstore: SimKpStore,
    pub pskstore: SimPskStore,
    pub identity: SimIdentity,
    pub rules: SimRules,
    pub crypto: SimCrypto,
    pub signer: SignatureSecretKey,
    pub signing_identity: SigningIdentity,
    pub client: SimClient,
    pub mems: Vec<Mem>,
    pub crashed: bool,
    pub generation: u32,
}

#[derive(Default, Clone, Debug, serde::Serialize, serde::Deserialize)]
pub struct Stats {
    pub actions: u64,
    pub skipped: u64,
    pub epochs: u64,
    pub sim_seconds: u64,
    pub ops: BTreeMap<String, u64>,
    pub faults: BTreeMap<String, u64>,
    pub probes: BTreeMap<String, u64>,
    pub results: BTreeMap<String, u64>,
    pub checks: BTreeMap<String, u64>,
    pub max_members: u64,
    pub stuck: BTreeMap<String, u64>,
}

impl Stats {
    pub fn op(&mut self, k: &str) {
        *self.ops.entry(k.to_string()).or_default() += 1;
    }
    pub fn fault(&mut self, k: &str) {
        *self.faults.entry(k.to_string()).or_default() += 1;
    }
    pub fn probe(&mut self, k: &str) {
        *self.probes.entry(k.to_string()).or_default() += 1;
    }
    pub fn result(&mut self, k: &str) {
        *self.results.entry(k.to_string()).or_default() += 1;
    }
    pub fn check(&mut self, k: &str) {
        *self.checks.entry(k.to_string()).or_default() += 1;
    }
    pub fn merge(&mut self, o: &Stats) {
        self.actions += o.actions;
        self.skipped += o.skipped;
        self.epochs += o.epochs;
        self.sim_seconds += o.sim_seconds;
        self.max_members = self.max_members.max(o.max_members);
        for (a, b) in [
            (&mut self.ops, &o.ops),
            (&mut self.faults, &o.faults),
            (&mut self.probes, &o.probes),
            (&mut self.results, &o.results),
            (&mut self.checks, &o.checks),
            (&mut self.stuck, &o.stuck),
        ] {
            for (k, v) in b {
                *a.entry(k.clone()).or_default() += v;
            }
        }
    }
}

pub struct World {
    pub cfg: SwarmCfg,
    pub seed: u64,
    pub prng: Prng,
    pub clock: u64,
    pub parties: Vec<Party>,
    pub groups: Vec<GroupTruth>,
    pub msgs: BTreeMap<u64, Msg>,
    /// key package reference -> (party, key package message bytes)
    pub kp_owner: BTreeMap<Vec<u8>, (usize, Vec<u8>)>,
    pub trace: Vec<Step>,
    pub step_no: u32,
    pub sub: u64,
    pub hasher: Sha256,
    pub log_tail: Vec<String>,
    pub stats: Stats,
    pub suite: CipherSuite,
    pub kinds: Vec<String>,
    pub known: Vec<String>,
    pub states_seen: BTreeSet<u64>,
    pub ext: crate::oracles::OracleState,
    pub idgen_ctx: Arc<CryptoCtx>,
}

pub type VResult<T> = Result<T, Violation>;

pub fn err_class(e: &MlsError) -> String {
    let s = format!("{e:?}");
    let end = s
        .find(|c: char| !(c.is_alphanumeric() || c == '_'))
        .unwrap_or(s.len());
    s[..end].to_string()
}

pub fn panic_msg(p: Box<dyn std::any::Any + Send>) -> String {
    if let Some(s) = p.downcast_ref::<&str>() {
        s.to_string()
    } else if let Some(s) = p.downcast_ref::<String>() {
        s.clone()
    } else {
        "panic".to_string()
    }
}

/// run a library call under catch_unwind; a panic is reported as a violation of `property`
pub fn guarded<T>(property: &str, what: &str, f: impl FnOnce() -> T) -> VResult<T> {
    match catch_unwind(AssertUnwindSafe(f)) {
        Ok(v) => Ok(v),
        Err(p) => {
            let m = panic_msg(p);
            Err(Violation::new(
                property,
                "no-panic",
                format!("panic:{what}"),
                format!("library call `{what}` panicked: {m}"),
            ))
        }
    }
}

fn suite_from(n: u16) -> CipherSuite {
    CipherSuite::from(n)
}

pub fn make_client(
    crypto: &SimCrypto,
    identity: &SimIdentity,
    rules: &SimRules,
    gstore: &SimGroupStorage,
    kpstore: &SimKpStore,
    pskstore: &SimPskStore,
    signing_identity: &SigningIdentity,
    signer: &SignatureSecretKey,
    suite: CipherSuite,
) -> SimClient {
    let legacy = rules.cfg.lock().unwrap().legacy;
    let b = mls_rs::Client::builder()
        .key_package_repo(kpstore.clone())
        .psk_store(pskstore.clone())
        .group_state_storage(gstore.clone())
        .identity_provider(identity.clone())
        .mls_rules(rules.clone())
        .crypto_provider(crypto.clone())
        .custom_proposal_type(mls_rs::group::proposal::ProposalType::new(0xF000));
    // a "legacy" device does not know the group-context extension type the other devices use
    let b = if legacy { b } else { b.extension_type(mls_rs::extension::ExtensionType::new(0xF001)) };
    b.signing_identity(signing_identity.clone(), signer.clone(), suite).build()
}

impl World {
    pub fn new(cfg: SwarmCfg, seed: u64) -> VResult<World> {
        let suite = suite_from(cfg.suite);
        let mut w = World {
            prng: Prng::new(mix(&[seed, 0x57a7])),
            seed,
            clock: T0,
            parties: vec![],
            groups: vec![],
            msgs: BTreeMap::new(),
            kp_owner: BTreeMap::new(),
            trace: vec![],
            step_no: 0,
            sub: 0,
            hasher: Sha256::new(),
            log_tail: vec![],
            stats: Stats::default(),
            suite,
            kinds: vec![],
            known: vec![],
            states_seen: BTreeSet::new(),
            ext: Default::default(),
            idgen_ctx: CryptoCtx::new(9999, mix(&[seed, 0x1d6e])),
            cfg,
        };
        for i in 0..w.cfg.n_parties {
            let p = w.make_party(i, 0)?;
            w.parties.push(p);
        }
        Ok(w)
    }

    pub fn now(&self) -> MlsTime {
        MlsTime::from(self.clock)
    }

    pub fn make_party(&self, i: usize, generation: u32) -> VResult<Party> {
        let provider = self.cfg.providers[i % self.cfg.providers.len()];
        let ctx = CryptoCtx::new(i as u32, mix(&[self.seed, 0xc0de, i as u64, generation as u64]));
        let mut crypto = SimCrypto::new(provider, ctx.clone());
        if let Some(c) = self.cfg.cross {
            if c != provider {
                crypto = crypto.with_cross(c);
            }
        }
        let faults: Faults = Default::default();
        let sql = self.cfg.storage != StorageKind::Mem;
        let gstore = SimGroupStorage::new(self.cfg.storage, self.cfg.retention, faults.clone());
        let kpstore = SimKpStore::new(sql, faults.clone());
        let pskstore = SimPskStore::new(faults.clone(), self.cfg.weight("psk_rotate") > 0);
        let identity = SimIdentity::default();
        if self.cfg.knob("banned").is_some() {
            // the application's identity policy is the same on every device: the last party's credential is refused
            let name = format!("P{}", self.cfg.n_parties - 1).into_bytes();
            identity.ctl.lock().unwrap().reject.insert(name);
        }
        let rules = SimRules::default();
        {
            let mut r = rules.cfg.lock().unwrap();
            r.custom_needs_path = self.cfg.knob("custom-path").unwrap_or(1) == 1;
            r.legacy = self.legacy() == Some(i);
            let mut eo = EncryptionOptions::default();
            eo.encrypt_control_messages = self.cfg.encrypt_handshake;
            r.encrypt = eo;
        }
        let name = format!("P{i}").into_bytes();
        let csp = crypto.cipher_suite_provider(self.suite).ok_or_else(|| {
            Violation::new(
                "HARNESS",
                "setup",
                "suite".into(),
                format!("provider {:?} lacks suite {:?}", provider, self.suite),
            )
        })?;
        let (signer, public) = guarded("HARNESS", "signature_key_generate", || {
            csp.signature_key_generate()
        })?
        .map_err(|e| Violation::new("HARNESS", "setup", "keygen".into(), format!("{e:?}")))?;
        let signing_identity =
            SigningIdentity::new(BasicCredential::new(name.clone()).into_credential(), public);
        let client = make_client(
            &crypto,
            &identity,
            &rules,
            &gstore,
            &kpstore,
            &pskstore,
            &signing_identity,
            &signer,
            self.suite,
        );
        Ok(Party {
            idx: i,
            name,
            provider,
            ctx,
            faults,
            gstore,
            kpstore,
            pskstore,
            identity,
            rules,
            crypto,
            signer,
            signing_identity,
            client,
            mems: vec![],
            crashed: false,
            generation,
        })
    }

    /// C10: the party whose devices do not support extension type 0xF001
    pub fn legacy(&self) -> Option<usize> {
        (self.cfg.knob("legacy").is_some() && self.cfg.n_parties >= 4).then(|| self.cfg.n_parties - 2)
    }

    pub fn ctx_has_f001(&self, g: usize, epoch: u64) -> bool {
        self.groups[g]
            .records
            .get(&epoch)
            .map(|r| crate::c13::ctx_has_extension(&r.ctx, 0xF001))
            .unwrap_or(false)
    }

    /// would the legacy party be in the group, next to extension 0xF001, after this commit - as far as the model can
    /// tell for certain? (None: cannot tell)
    pub fn legacy_clash(&self, p: usize, g: usize, epoch: u64, spec: &CommitSpec, refs: &[u64]) -> Option<bool> {
        let l = self.legacy()?;
        let member = self.groups[g].members.get(&epoch).map(|m| m.contains_key(&l)).unwrap_or(false);
        let has = self.ctx_has_f001(g, epoch);
        if member && has {
            return None;
        }
        if spec.reinit.is_some() {
            return None;
        }
        // by-reference removals of the legacy party make the outcome depend on filtering: not certain
        for r in refs {
            match &self.msgs[r].pspec {
                Some(PropSpec::Remove { q }) if *q == l => return None,
                Some(PropSpec::SelfRemove) if self.msgs[r].sender == l => return None,
                _ => {}
            }
        }
        let stays = member && !spec.removes.contains(&l) && p != usize::MAX;
        let added = !member && spec.adds.contains(&l);
        let ext_after = has || spec.gce.is_some();
        Some((stays || added) && ext_after)
    }

    pub fn csp(&self, p: usize) -> crypto::SimSuite {
        self.parties[p]
            .crypto
            .cipher_suite_provider(self.suite)
            .expect("suite")
    }

    /// key generation for identity changes draws from a world-level source, not from the party's own
    /// crypto PRNG (so a twin of the party stays in lock-step)
    pub fn idgen_suite(&self) -> crypto::SimSuite {
        SimCrypto::new(self.cfg.providers[0], self.idgen_ctx.clone())
            .cipher_suite_provider(self.suite)
            .expect("suite")
    }

    pub fn next_gen(&mut self, p: usize, g: usize, epoch: u64, app: bool) -> u32 {
        let e = self.mem(p, g).sent_gen.entry((epoch, app)).or_insert(0);
        let v = *e;
        *e += 1;
        v
    }

    pub fn new_msg_id(&mut self) -> u64 {
        self.sub += 1;
        ((self.step_no as u64) << 10) | (self.sub & 0x3ff)
    }

    pub fn ev(&mut self, s: String) {
        self.hasher.update(s.as_bytes());
        self.hasher.update(b"\n");
        static CAP: std::sync::OnceLock<usize> = std::sync::OnceLock::new();
        let cap = *CAP.get_or_init(|| if std::env::var("VERIF_FULL_LOG").is_ok() { 10_000_000 } else { 400 });
        if self.log_tail.len() < cap {
            self.log_tail.push(s);
        }
    }

    pub fn log_hash(&self) -> String {
        hex::encode(self.hasher.clone().finalize())
    }

    pub fn mem(&mut self, p: usize, g: usize) -> &mut Mem {
        let party = &mut self.parties[p];
        while party.mems.len() <= g {
            party.mems.push(Mem::default());
        }
        &mut party.mems[g]
    }

    pub fn mem_ref(&self, p: usize, g: usize) -> Option<&Mem> {
        self.parties[p].mems.get(g)
    }

    pub fn live(&self, p: usize, g: usize) -> bool {
        self.mem_ref(p, g)
            .map(|m| m.group.is_some() && m.status == Status::Member)
            .unwrap_or(false)
    }

    pub fn epoch_of(&self, p: usize, g: usize) -> Option<u64> {
        self.mem_ref(p, g)
            .and_then(|m| m.group.as_ref())
            .map(|g| g.current_epoch())
    }

    pub fn live_members(&self, g: usize) -> Vec<usize> {
        (0..self.parties.len()).filter(|p| self.live(*p, g)).collect()
    }

    pub fn party_by_name(&self, name: &[u8]) -> Option<usize> {
        self.parties.iter().position(|p| p.name == name)
    }

    // -----------------------------------------------------------------------------------------
    // set-up

    /// party `p` creates group `g` (index = groups.len())
    pub fn create_group(&mut self, p: usize) -> VResult<usize> {
        let g = self.groups.len();
        let gid = format!("group-{g}-{:08x}", self.seed as u32).into_bytes();
        let now = self.now();
        let client = self.parties[p].client.clone();
        let gid2 = gid.clone();
        let ext_sender = self.ext.ext_sender.as_ref().map(|(_, sid)| sid.clone());
        let ext_sender_old = self.ext.ext_sender_old.clone();
        let res = guarded(&self.cfg.property.clone(), "create_group", move || {
            let mut b = client.group_builder()?.with_group_id(gid2).with_now_time(now);
            if let Some(sid) = ext_sender {
                use mls_rs::extension::MlsExtension;
                b = b.with_group_context_extension(
                    mls_rs::extension::built_in::ExternalSendersExt::new(ext_sender_old.into_iter().chain([sid]).collect())
                        .into_extension()
                        .map_err(|e| MlsError::from(e))?,
                );
            }
            b.build()
        })?;
        let group = res.map_err(|e| {
            Violation::new(
                &self.cfg.property,
                "liveness",
                "create_group".into(),
                format!("create_group failed: {e:?}"),
            )
        })?;
        self.groups.push(GroupTruth {
            gid,
            ..Default::default()
        });
        let m = self.mem(p, g);
        m.group = Some(group);
        m.status = Status::Member;
        m.join_epoch = 0;
        self.ev(format!("create g{g} by P{p}"));
        self.reached_epoch(p, g, "create")?;
        Ok(g)
    }

    // -----------------------------------------------------------------------------------------
    // canonical records (C01)

    pub fn export_params(&self, g: usize, epoch: u64, k: u64) -> (Vec<u8>, Vec<u8>, usize) {
        let mut r = Prng::new(mix(&[self.seed, 0xe4b0, g as u64, epoch, k]));
        let lens = [0usize, 1, 16, 32, 33, 64, 255];
        let ll = r.usize_below(12) + 1;
        let label = r.bytes(ll);
        let n = r.usize_below(40);
        let ctx = r.bytes(n);
        let len = *r.pick(&lens);
        (label, ctx, len)
    }

    pub fn record_of(&self, group: &SimGroup, g: usize, first: usize) -> Result<EpochRec, MlsError> {
        use mls_rs::mls_rs_codec::MlsEncode;
        let epoch = group.current_epoch();
        let ctx = group.context().mls_encode_to_vec()?;
        let tree = group.export_tree().to_bytes()?;
        let roster = group
            .roster()
            .members()
            .into_iter()
            .map(|m| {
                let id = m
                    .signing_identity
                    .credential
                    .as_basic()
                    .map(|b| b.identifier.clone())
                    .unwrap_or_default();
                (m.index, id, m.signing_identity.signature_key.as_ref().to_vec())
            })
            .collect();
        let auth = group.epoch_authenticator()?.as_bytes().to_vec();
        let mut exports = vec![];
        for k in 0..3 {
            let (label, c, len) = self.export_params(g, epoch, k);
            exports.push(group.export_secret(&label, &c, len)?.as_bytes().to_vec());
        }
        Ok(EpochRec {
            ctx,
            tree,
            roster,
            auth,
            exports,
            first,
        })
    }

    /// party p has just reached a new epoch of group g (create, join, commit applied/processed)
    pub fn reached_epoch(&mut self, p: usize, g: usize, how: &str) -> VResult<()> {
        let group = self.parties[p].mems[g].group.clone().expect("live group");
        let epoch = group.current_epoch();
        let prop = self.cfg.property.clone();
        let rec = guarded(&prop, "record_of", || self.record_of(&group, g, p))?.map_err(|e| {
            Violation::new(
                &prop,
                "agreement",
                "record".into(),
                format!("P{p} cannot export its epoch {epoch} state after {how}: {e:?}"),
            )
        })?;
        self.stats.check("agreement");
        let existing = self.groups[g].records.get(&epoch).cloned();
        match existing {
            None => {
                let mut members = BTreeMap::new();
                for (idx, id, _) in &rec.roster {
                    if let Some(q) = self.party_by_name(id) {
                        members.insert(q, *idx);
                    }
                }
                self.stats.max_members = self.stats.max_members.max(members.len() as u64);
                self.groups[g].members.insert(epoch, members);
                self.groups[g].records.insert(epoch, rec);
                self.stats.epochs += 1;
            }
            Some(canon) => {
                let mut diffs = vec![];
                if canon.ctx != rec.ctx {
                    diffs.push("context");
                }
                if canon.tree != rec.tree {
                    diffs.push("tree");
                }
                if canon.roster != rec.roster {
                    diffs.push("roster");
                }
                if canon.auth != rec.auth {
                    diffs.push("authenticator");
                }
                if canon.exports != rec.exports {
                    diffs.push("exports");
                }
                if !diffs.is_empty() {
                    return Err(Violation::new(
                        &prop,
                        "agreement",
                        format!("agreement:{}", diffs.join("+")),
                        format!(
                            "P{p} reached epoch {epoch} of g{g} via {how} with different {} than P{} (first to reach it)",
                            diffs.join(", "),
                            canon.first
                        ),
                    ));
                }
            }
        }
        self.roster_accessors(p, g, &group, how)?;
        let digest = hex::encode(&Sha256::digest(&self.groups[g].records[&epoch].ctx)[..6]);
        self.ev(format!("  P{p} g{g} epoch {epoch} via {how} ctx={digest}"));
        crate::oracles::on_epoch(self, p, g, how)?;
        Ok(())
    }

    /// the roster a member reports is exactly the occupied leaves of the tree it exports, and every roster accessor
    /// (by index, by identity, own index, own identity) gives the same member
    fn roster_accessors(&mut self, p: usize, g: usize, group: &SimGroup, how: &str) -> VResult<()> {
        let prop = self.cfg.property.clone();
        let epoch = group.current_epoch();
        let bad = |what: &str, detail: String| {
            Violation::new(&prop, "roster-matches-tree", format!("roster:{what}"), format!("P{p} g{g} epoch {epoch} via {how}: {detail}"))
        };
        let members = group.roster().members();
        let tree_bytes = group.export_tree().to_bytes().unwrap_or_default();
        let Ok(tree) = crate::refmls::Tree::parse(&tree_bytes) else { return Ok(()) };
        self.stats.check("roster-matches-tree");
        let occupied = tree.occupied_leaves();
        let listed: Vec<u32> = members.iter().map(|m| m.index).collect();
        if occupied != listed {
            return Err(bad("differs-from-tree", format!("roster() lists leaves {listed:?}, the exported tree has leaves {occupied:?}")));
        }
        let iter_idx: Vec<u32> = group.roster().members_iter().map(|m| m.index).collect();
        if iter_idx != listed || group.roster().member_identities_iter().count() != listed.len() {
            return Err(bad("iterators-differ", format!("members_iter() gives {iter_idx:?}, members() gives {listed:?}")));
        }
        for m in &members {
            let leaf = tree.leaf(m.index);
            let key = m.signing_identity.signature_key.as_ref();
            if leaf.map(|l| l.sig_key.as_slice() != key).unwrap_or(true) {
                return Err(bad("member-differs-from-leaf", format!("roster member {} does not carry the signature key of leaf {}", m.index, m.index)));
            }
            if group.member_at_index(m.index).as_ref() != Some(m) || group.roster().member_with_index(m.index).ok().as_ref() != Some(m) {
                return Err(bad("by-index", format!("member_at_index({0}) / member_with_index({0}) do not return roster member {0}", m.index)));
            }
            if let Some(b) = m.signing_identity.credential.as_basic() {
                let r = guarded(&prop, "member_with_identity", || group.member_with_identity(&b.identifier))?;
                if r.ok().as_ref() != Some(m) {
                    return Err(bad("by-identity", format!("member_with_identity of roster member {} does not return it", m.index)));
                }
            }
        }
        // a blank or out-of-range index is no member
        let width = 2 * tree.full_leaves().max(1);
        for i in (0..width + 1).filter(|i| !occupied.contains(i)) {
            if group.member_at_index(i).is_some() || group.roster().member_with_index(i).is_ok() {
                return Err(bad("blank-index", format!("member_at_index({i}) / member_with_index({i}) return a member although leaf {i} is blank or outside the tree")));
            }
        }
        let own = group.current_member_index();
        let own_m = members.iter().find(|m| m.index == own);
        let own_id = group.current_member_signing_identity().ok();
        if own_m.map(|m| Some(&m.signing_identity) != own_id).unwrap_or(true) || own_id != Some(&self.parties[p].signing_identity) && !self.cfg.same_storage_rejoin {
            // (a party that came back after a removal may carry a newer signing identity than the one it started with)
            if own_m.map(|m| Some(&m.signing_identity) != own_id).unwrap_or(true) {
                return Err(bad("own-entry", format!("current_member_index() = {own} / current_member_signing_identity() do not match the roster")));
            }
        }
        Ok(())
    }

    // -----------------------------------------------------------------------------------------
    // executing actions

    pub fn exec(&mut self, step: &Step) -> VResult<bool> {
        self.step_no = step.n;
        self.sub = 0;
        let r = self.exec_inner(&step.a);
        match r {
            Ok(done) => {
                if done {
                    self.stats.actions += 1;
                    self.kinds.push(action_kind(&step.a).to_string());
                    // abstract state for the coverage measure
                    let h = self.abstract_state();
                    self.states_seen.insert(h);
                } else {
                    self.stats.skipped += 1;
                }
                // mirror violations and provider disagreements are checked after every step
                crate::oracles::after_step(self)?;
                Ok(done)
            }
            Err(mut v) => {
                v.step = step.n;
                Err(v)
            }
        }
    }

    fn abstract_state(&self) -> u64 {
        let mut parts: Vec<u64> = vec![];
        for (gi, g) in self.groups.iter().enumerate() {
            parts.push(g.log.len() as u64);
            parts.push(g.candidates.values().map(|v| v.len() as u64).sum());
            if let Some((_, m)) = g.members.iter().next_back() {
                let mut bm = 0u64;
                for (_, leaf) in m {
                    bm |= 1 << (*leaf % 64);
                }
                parts.push(bm);
            }
            for p in &self.parties {
                if let Some(m) = p.mems.get(gi) {
                    let st = match &m.status {
                        Status::Never => 0,
                        Status::Invited => 1,
                        Status::Member => 2,
                        Status::Removed => 3,
                        Status::Stuck(_) => 4,
                    };
                    let behind = m
                        .group
                        .as_ref()
                        .map(|x| (g.log.len() as u64).saturating_sub(x.current_epoch()).min(3))
                        .unwrap_or(7);
                    parts.push(
                        st | (behind << 3)
                            | ((m.pending.is_some() as u64) << 6)
                            | ((m.cached.len().min(3) as u64) << 7)
                            | ((m.inbox.len().min(3) as u64) << 9)
                            | ((m.group.is_none() as u64) << 11),
                    );
                }
            }
        }
        mix(&parts)
    }

    fn exec_inner(&mut self, a: &Action) -> VResult<bool> {
        match a {
            Action::Tick { dt } => {
                self.clock += *dt as u64;
                self.stats.sim_seconds += *dt as u64;
                self.ev(format!("tick {dt}"));
                Ok(true)
            }
            Action::Commit { p, g, spec } => self.do_commit(*p, *g, spec),
            Action::Propose { p, g, spec } => self.do_propose(*p, *g, spec),
            Action::DsPick { g, choice } => self.do_ds_pick(*g, *choice),
            Action::DeliverCommit { p, g, own_apply } => self.do_deliver_commit(*p, *g, *own_apply),
            Action::Join { p, g } => self.do_join(*p, *g),
            Action::Deliver { p, g, k, fate } => self.do_deliver(*p, *g, *k, fate),
            Action::SendApp { p, g, len, aad_len } => self.do_send_app(*p, *g, *len, *aad_len),
            Action::Write { p, g } => self.do_write(*p, *g),
            Action::Crash { p } => self.do_crash(*p),
            Action::Reload { p, g } => self.do_reload(*p, *g),
            Action::ClearPending { p, g } => self.do_clear_pending(*p, *g),
            Action::ExtCommit {
                p,
                g,
                remove_old,
                psk,
            } => self.do_ext_commit(*p, *g, *remove_old, *psk),
            Action::StaleCommit { p, g, k } => self.do_stale_commit(*p, *g, *k),
            Action::Corrupt { p, g, msg, m } => crate::oracles::do_corrupt(self, *p, *g, *msg, m),
            Action::Replay { p, g, msg } => crate::oracles::do_replay(self, *p, *g, *msg),
            Action::ApplyPendingEarly { .. } => Ok(false),
            Action::Special { kind, a, b, c } => crate::oracles::do_special(self, kind, *a, *b, *c),
        }
    }

    pub fn set_commit_options(&mut self, p: usize, spec: &CommitSpec) {
        let mut r = self.parties[p].rules.cfg.lock().unwrap();
        r.commit = CommitOptions::new()
            .with_path_required(spec.path_required)
            .with_ratchet_tree_extension(spec.ratchet_tree_ext)
            .with_single_welcome_message(spec.single_welcome)
            .with_allow_external_commit(spec.allow_ext)
            .with_always_out_of_band_ratchet_tree(spec.oob_tree);
    }

    /// generate a key package for party q; returns (message bytes, reference)
    /// key package of a throw-away device whose client never registered extension type 0xF001 (C10: a new member
    /// has to support every extension type of the group context)
    pub fn legacy_key_package(&mut self, p: usize) -> VResult<Option<Vec<u8>>> {
        let csp = self.idgen_suite();
        let Ok((sk, pk)) = csp.signature_key_generate() else { return Ok(None) };
        let name = format!("legacy-{}-{}", self.step_no, self.sub).into_bytes();
        let sid = SigningIdentity::new(BasicCredential::new(name).into_credential(), pk);
        let client = mls_rs::Client::builder()
            .identity_provider(mls_rs::identity::basic::BasicIdentityProvider::new())
            .crypto_provider(self.parties[p].crypto.clone())
            .custom_proposal_type(mls_rs::group::proposal::ProposalType::new(0xF000))
            .signing_identity(sid, sk, self.suite)
            .build();
        let now = self.now();
        let prop = self.cfg.property.clone();
        let r = guarded(&prop, "generate_key_package_message(legacy device)", || {
            client.generate_key_package_message(Default::default(), Default::default(), Some(now))
        })?;
        Ok(r.ok().and_then(|m| m.to_bytes().ok()))
    }

    pub fn gen_key_package(&mut self, q: usize) -> VResult<Option<Vec<u8>>> {
        let now = self.now();
        self.gen_key_package_at(q, now)
    }

    /// key package whose lifetime starts at `now` (the simulated clock, or a shifted time for the C10 templates)
    pub fn gen_key_package_at(&mut self, q: usize, now: MlsTime) -> VResult<Option<Vec<u8>>> {
        // the key package draws from q's crypto PRNG outside any mirrored call: a twin of q (in another group)
        // can no longer follow byte for byte
        self.ext.twins.retain(|(p, _), _| *p != q);
        let client = self.parties[q].client.clone();
        let prop = self.cfg.property.clone();
        let r = guarded(&prop, "generate_key_package_message", || {
            client.generate_key_package_message(Default::default(), Default::default(), Some(now))
        })?;
        let kp = match r {
            Ok(kp) => kp,
            Err(e) => {
                self.ev(format!("  kp P{q} err {}", err_class(&e)));
                return Ok(None);
            }
        };
        let csp = self.csp(q);
        let kref = kp
            .key_package_reference(&csp)
            .ok()
            .flatten()
            .map(|r| r.to_vec())
            .unwrap_or_default();
        let bytes = kp.to_bytes().unwrap_or_default();
        crate::oracles::on_wire(self, &bytes, "key_package")?;
        self.kp_owner.insert(kref, (q, bytes.clone()));
        Ok(Some(bytes))
    }

    pub fn do_commit(&mut self, p: usize, g: usize, spec: &CommitSpec) -> VResult<bool> {
        if !self.live(p, g) || self.parties[p].mems[g].pending.is_some() {
            return Ok(false);
        }
        if self.parties[p].mems[g].ext_pending.is_some() {
            return Ok(false);
        }
        let prop = self.cfg.property.clone();
        let epoch = self.epoch_of(p, g).unwrap();
        self.set_commit_options(p, spec);
        // key packages for by-value adds
        let mut add_kps = vec![];
        for q in &spec.adds {
            if *q >= self.parties.len() {
                continue;
            }
            let st = self.mem(*q, g).status.clone();
            if st == Status::Member || st == Status::Invited || matches!(st, Status::Stuck(_)) {
                continue;
            }
            if st == Status::Removed && self.multi() && !self.cfg.same_storage_rejoin {
                continue;
            }
            if self.groups[g].members.get(&epoch).map(|m| m.contains_key(q)).unwrap_or(false) {
                continue;
            }
            self.prepare_rejoin(*q, g)?;
            if let Some(kp) = self.gen_key_package(*q)? {
                add_kps.push(kp);
            }
        }
        let mut remove_idx = vec![];
        {
            let group = self.parties[p].mems[g].group.as_ref().unwrap();
            for q in &spec.removes {
                if *q == p || *q >= self.parties.len() {
                    continue;
                }
                if let Ok(m) = group.member_with_identity(&self.parties[*q].name) {
                    remove_idx.push(m.index);
                }
            }
        }
        let aad = vec![0xA5u8; spec.aad_len as usize];
        let now = self.now();
        let new_id = if spec.new_identity {
            let csp = self.idgen_suite();
            match csp.signature_key_generate() {
                Ok((sk, pk)) => Some((
                    sk,
                    SigningIdentity::new(
                        BasicCredential::new(self.parties[p].name.clone()).into_credential(),
                        pk,
                    ),
                )),
                Err(_) => None,
            }
        } else {
            None
        };
        let extra = crate::oracles::commit_extras(self, p, g, spec)?;
        // inputs of by-value templates with a known violation (C10)
        let own_index = self.parties[p].mems[g].group.as_ref().unwrap().current_member_index();
        let group_suite = self.suite;
        let tmpl_victim = self.groups[g]
            .members
            .get(&epoch)
            .and_then(|m| m.iter().find(|(q, _)| **q != p).map(|(_, i)| *i));
        let mut tmpl_kp = None;
        let ctx_has_f001 = self.groups[g]
            .records
            .get(&epoch)
            .map(|r| crate::c13::ctx_has_extension(&r.ctx, 0xF001))
            .unwrap_or(false);
        for (t, q) in &spec.templates {
            if *t == 12 && ctx_has_f001 {
                // a device that does not support the extension type the group context carries
                tmpl_kp = self.legacy_key_package(p)?;
                if tmpl_kp.is_some() {
                    self.stats.probe("template-legacy-device");
                }
            }
            if matches!(t, 5 | 8 | 10 | 11) && *q < self.parties.len() {
                let st = self.mem(*q, g).status.clone();
                if matches!(st, Status::Never) {
                    // 10: a key package that expired a second ago; 11: one that becomes valid in an hour
                    let year = 365 * 24 * 3600u64;
                    let at = match t {
                        10 => MlsTime::from(self.clock.saturating_sub(year + 1)),
                        11 => MlsTime::from(self.clock + 3600),
                        _ => self.now(),
                    };
                    tmpl_kp = self.gen_key_package_at(*q, at)?;
                }
            }
        }
        let pre = crate::oracles::before_op(self, p, g, "commit")?;
        crypto::rec_set_phase(self.step_no as u64);
        let _ = crypto::rec_take_events();
        let cached_refs: Vec<u64> = self.parties[p].mems[g].cached.iter().copied().collect();
        let spec2 = spec.clone();
        let res = crate::oracles::lib_call(self, p, Some(g), "commit", |w| {
          let mut group = w.parties[p].mems[g].group.take().unwrap();
          let res = guarded(&prop, "commit", || {
            let mut b = group.commit_builder();
            for kp in &add_kps {
                b = b.add_member(MlsMessage::from_bytes(kp)?)?;
            }
            for idx in &remove_idx {
                b = b.remove_member(*idx)?;
            }
            if spec2.res_first {
                for e in &extra.res_psk_epochs {
                    b = b.add_resumption_psk(*e)?;
                }
            }
            for id in &spec2.ext_psks {
                b = b.add_external_psk(mls_rs::psk::ExternalPskId::new(vec![b'k', *id]))?;
            }
            if !spec2.res_first {
                for e in &extra.res_psk_epochs {
                    b = b.add_resumption_psk(*e)?;
                }
            }
            if let Some(v) = spec2.gce {
                b = b.set_group_context_ext(crate::oracles::gce_list(v))?;
            }
            if let Some(v) = spec2.custom {
                b = b.custom_proposal(mls_rs::group::proposal::CustomProposal::new(
                    mls_rs::group::proposal::ProposalType::new(0xF000),
                    vec![v; 3],
                ));
            }
            if let Some(v) = spec2.leaf_ext {
                b = b.set_leaf_node_extensions(crate::oracles::leaf_ext_list(v));
            }
            for pr in extra.raw_proposals.iter().cloned() {
                b = b.raw_proposal(pr);
            }
            if let Some(cs) = spec2.reinit {
                b = b.reinit(
                    Some(extra.reinit_gid.clone()),
                    mls_rs::ProtocolVersion::MLS_10,
                    CipherSuite::from(cs),
                    Default::default(),
                )?;
            }
            if let Some((sk, id)) = new_id.clone() {
                b = b.set_new_signing_identity(sk, id);
            }
            for (t, _q) in &spec2.templates {
                match t {
                    1 => b = b.remove_member(own_index)?,
                    2 => {
                        if let Some(idx) = tmpl_victim {
                            b = b.remove_member(idx)?.remove_member(idx)?;
                        } else {
                            b = b.remove_member(own_index)?;
                        }
                    }
                    3 => {
                        b = b
                            .add_external_psk(mls_rs::psk::ExternalPskId::new(vec![b'k', 0]))?
                            .add_external_psk(mls_rs::psk::ExternalPskId::new(vec![b'k', 0]))?;
                    }
                    4 => b = b.add_external_psk(mls_rs::psk::ExternalPskId::new(vec![b'k', 99]))?,
                    5 | 8 | 10 | 11 | 12 => {
                        if let Some(kp) = &tmpl_kp {
                            b = b.add_member(MlsMessage::from_bytes(kp)?)?;
                            if *t == 5 {
                                b = b.add_member(MlsMessage::from_bytes(kp)?)?;
                            }
                        } else {
                            b = b.remove_member(own_index)?;
                        }
                    }
                    14 => {
                        // the resumption PSK of an epoch that has not happened yet: nobody can hold it
                        let off = [1u64, 7, u64::MAX - epoch][*_q % 3];
                        b = b.add_resumption_psk(epoch.saturating_add(off))?;
                    }
                    13 => {
                        // re-init next to a custom proposal that every member supports
                        b = b
                            .reinit(None, mls_rs::ProtocolVersion::MLS_10, group_suite, Default::default())?
                            .custom_proposal(mls_rs::group::proposal::CustomProposal::new(
                                mls_rs::group::proposal::ProposalType::new(0xF000),
                                vec![7; 3],
                            ));
                    }
                    _ => {
                        // re-init mixed with another proposal
                        b = b
                            .reinit(None, mls_rs::ProtocolVersion::MLS_10, group_suite, Default::default())?
                            .remove_member(own_index)?;
                    }
                }
            }
            b = b.authenticated_data(aad.clone()).commit_time(now);
            if spec2.detached {
                b.build_detached().map(|(o, s)| (o, Some(s)))
            } else {
                b.build().map(|o| (o, None))
            }
          });
          w.parties[p].mems[g].group = Some(group);
          res
        });
        crate::oracles::clear_modifiers();
        let res = res?;
        self.stats.op("commit");
        match res {
            Err(e) => {
                let cls = err_class(&e);
                self.ev(format!("commit P{p} g{g} e{epoch} err {cls}"));
                self.stats.result(&format!("commit:err:{cls}"));
                for t in &spec.templates {
                    *self.stats.probes.entry(format!("by-value-template-refused:{}:{cls}", t.0)).or_default() += 1;
                }
                crate::oracles::after_failed_op(self, p, g, "commit", &cls, pre, Some(spec))?;
                Ok(true)
            }
            Ok((out, secrets)) => {
                if self.legacy_clash(p, g, epoch, spec, &cached_refs) == Some(true) {
                    return Err(Violation::new(
                        &prop,
                        "unsupported-capabilities",
                        "extension-unsupported-by-a-member-committed".into(),
                        format!("P{p} built a commit after which g{g} carries extension type 0xF001 while the device of P{} does not support it", self.legacy().unwrap_or(0)),
                    ));
                }
                if !spec.templates.is_empty() {
                    return Err(Violation::new(
                        &prop,
                        "invalid-by-value-never-committed",
                        format!("invalid-by-value-committed:{:?}", spec.templates.iter().map(|t| t.0).collect::<Vec<_>>()),
                        format!("P{p} built a commit although its by-value proposals violate a proposal rule (templates {:?})", spec.templates),
                    ));
                }
                let id = self.new_msg_id();
                let bytes = out.commit_message.to_bytes().map_err(|e| {
                    Violation::new(&prop, "codec", "to_bytes".into(), format!("{e:?}"))
                })?;
                crate::oracles::on_wire(self, &bytes, "commit")?;
                let mut welcomes = vec![];
                for wm in &out.welcome_messages {
                    let wb = wm.to_bytes().unwrap_or_default();
                    crate::oracles::on_wire(self, &wb, "welcome")?;
                    for r in wm.welcome_key_package_references() {
                        if let Some((q, _)) = self.kp_owner.get(&r.to_vec()) {
                            welcomes.push((*q, wb.clone()));
                        }
                    }
                }
                let oob_tree = out.ratchet_tree.as_ref().and_then(|t| t.to_bytes().ok());
                if let Some(t) = &oob_tree {
                    crate::oracles::on_wire(self, t, "tree")?;
                }
                let private = out.commit_message.wire_format() == mls_rs::WireFormat::PrivateMessage;
                let msg = Msg {
                    id,
                    g,
                    kind: MsgKind::Commit,
                    bytes,
                    sender: p,
                    epoch,
                    payload: vec![],
                    aad,
                    refs: cached_refs,
                    welcomes,
                    oob_tree,
                    external: false,
                    ext_psks: spec.ext_psks.clone(),
                    res_psks: extra.res_psk_epochs.clone(),
                    private,
                    spec: Some(spec.clone()),
                    pspec: None,
                    time: self.clock,
                    gen: if private { self.next_gen(p, g, epoch, false) } else { 0 },
                };
                self.ev(format!(
                    "commit P{p} g{g} e{epoch} ok id={id} path={} welcomes={} unused={} h={}",
                    out.contains_update_path,
                    msg.welcomes.len(),
                    out.unused_proposals.len(),
                    short_hash(&msg.bytes)
                ));
                self.stats.result("commit:ok");
                self.ext.commit_has_path.insert(id, out.contains_update_path);
                if out.contains_update_path {
                    self.stats.probe("commit-with-path");
                } else {
                    self.stats.probe("commit-without-path");
                }
                if let Some((sk, sid)) = new_id {
                    // remember so that later client operations can use the new identity
                    self.ext.new_identities.insert(id, (sk, sid));
                }
                self.msgs.insert(id, msg);
                if let Some(s) = secrets {
                    let sb = s.to_bytes().unwrap_or_default();
                    crate::oracles::on_wire(self, &sb, "commit_secrets")?;
                    self.parties[p].mems[g].detached.push((id, sb));
                    self.stats.probe("commit-detached");
                } else {
                    self.parties[p].mems[g].pending = Some(id);
                }
                if self.groups[g].reinit_at.is_none() {
                    self.groups[g].candidates.entry(epoch).or_default().push(id);
                }
                if private {
                    self.parties[p].mems[g].unwritten_sends += 1;
                    self.parties[p].mems[g].unwritten_epochs.insert(epoch);
                }
                crate::oracles::after_commit_built(self, p, g, id, pre, &out)?;
                Ok(true)
            }
        }
    }

    /// a party that was removed (or never a member) is about to be added again
    pub fn multi(&self) -> bool {
        self.groups.len() > 1 || self.cfg.knob("groups").is_some()
    }

    pub fn prepare_rejoin(&mut self, q: usize, g: usize) -> VResult<()> {
        let st = self.mem(q, g).status.clone();
        if st == Status::Removed && !self.cfg.same_storage_rejoin {
            // new device: fresh stores, fresh client (same identity, new keys)
            let gen = self.parties[q].generation + 1;
            let mut np = self.make_party(q, gen)?;
            if self.cfg.knob("same-signer-rejoin").is_some() {
                // the new device gets the identity key of the old one (it lived in a keystore that survived); only the
                // group state is new
                np.signer = self.parties[q].signer.clone();
                np.signing_identity = self.parties[q].signing_identity.clone();
                np.client = make_client(
                    &np.crypto,
                    &np.identity,
                    &np.rules,
                    &np.gstore,
                    &np.kpstore,
                    &np.pskstore,
                    &np.signing_identity,
                    &np.signer,
                    self.suite,
                );
                self.stats.probe("rejoin-new-device-same-signature-key");
            }
            std::mem::swap(&mut np.mems, &mut self.parties[q].mems);
            np.pskstore.copy_from(&self.parties[q].pskstore);
            // keep removed objects of the old device alive inside mems (C02)
            self.parties[q] = np;
            self.mem(q, g).status = Status::Never;
            self.mem(q, g).durable = Default::default();
            self.stats.probe("rejoin-new-device");
        } else if st == Status::Removed {
            self.stats.probe("rejoin-same-storage");
            self.mem(q, g).rejoined_same_storage = true;
        }
        let m = self.mem(q, g);
        m.cached.clear();
        m.accepted.clear();
        m.inbox.clear();
        m.pending = None;
        Ok(())
    }

    pub fn do_propose(&mut self, p: usize, g: usize, spec: &PropSpec) -> VResult<bool> {
        if !self.live(p, g) {
            return Ok(false);
        }
        let prop = self.cfg.property.clone();
        let epoch = self.epoch_of(p, g).unwrap();
        let now = self.now();
        let _ = now;
        // pre-compute inputs
        let mut kp_bytes = None;
        let mut target_idx = None;
        match spec {
            PropSpec::Add { q } => {
                if *q >= self.parties.len() {
                    return Ok(false);
                }
                let st = self.mem(*q, g).status.clone();
                if st == Status::Member || st == Status::Invited || matches!(st, Status::Stuck(_)) {
                    return Ok(false);
                }
                if st == Status::Removed && self.multi() && !self.cfg.same_storage_rejoin {
                    return Ok(false);
                }
                if self.groups[g].members.get(&epoch).map(|m| m.contains_key(q)).unwrap_or(false) {
                    return Ok(false);
                }
                self.prepare_rejoin(*q, g)?;
                kp_bytes = self.gen_key_package(*q)?;
                if kp_bytes.is_none() {
                    return Ok(false);
                }
            }
            PropSpec::Remove { q } => {
                if *q >= self.parties.len() {
                    return Ok(false);
                }
                let group = self.parties[p].mems[g].group.as_ref().unwrap();
                match group.member_with_identity(&self.parties[*q].name) {
                    Ok(m) => target_idx = Some(m.index),
                    Err(_) => return Ok(false),
                }
            }
            _ => {}
        }
        let extra = crate::oracles::proposal_extras(self, p, g, spec)?;
        let pre = crate::oracles::before_op(self, p, g, "propose")?;
        crypto::rec_set_phase(self.step_no as u64);
        let _ = crypto::rec_take_events();
        let new_id = if let PropSpec::Update { new_identity: true } = spec {
            let csp = self.idgen_suite();
            csp.signature_key_generate().ok().map(|(sk, pk)| {
                (
                    sk,
                    SigningIdentity::new(
                        BasicCredential::new(self.parties[p].name.clone()).into_credential(),
                        pk,
                    ),
                )
            })
        } else {
            None
        };
        let spec2 = spec.clone();
        let res = crate::oracles::lib_call(self, p, Some(g), "propose", |w| {
          let mut group = w.parties[p].mems[g].group.take().unwrap();
          let res = guarded(&prop, "propose", || match &spec2 {
            PropSpec::Add { .. } => {
                group.propose_add(MlsMessage::from_bytes(kp_bytes.as_ref().unwrap())?, vec![])
            }
            PropSpec::Update { .. } => match new_id.clone() {
                Some((sk, sid)) => group.propose_update_with_identity(sk, sid, vec![]),
                None => group.propose_update(vec![]),
            },
            PropSpec::Remove { .. } => group.propose_remove(target_idx.unwrap(), vec![]),
            #[cfg(feature = "self_remove")]
            PropSpec::SelfRemove => group.propose_self_remove(vec![]),
            #[cfg(not(feature = "self_remove"))]
            PropSpec::SelfRemove => Err(MlsError::UnexpectedMessageType),
            PropSpec::ExtPsk { id } => {
                group.propose_external_psk(mls_rs::psk::ExternalPskId::new(vec![b'k', *id]), vec![])
            }
            PropSpec::ResPsk { .. } => group.propose_resumption_psk(extra.res_epoch, vec![]),
            PropSpec::Gce { val } => {
                group.propose_group_context_extensions(crate::oracles::gce_list(*val), vec![])
            }
            PropSpec::Custom { val } => group.propose_custom(
                mls_rs::group::proposal::CustomProposal::new(
                    mls_rs::group::proposal::ProposalType::new(0xF000),
                    vec![*val; 3],
                ),
                vec![],
            ),
            PropSpec::ReInit { suite } => group.propose_reinit(
                Some(extra.reinit_gid.clone()),
                mls_rs::ProtocolVersion::MLS_10,
                CipherSuite::from(*suite),
                Default::default(),
                vec![],
            ),
            PropSpec::Template { .. } => match extra.raw.clone() {
                Some(f) => f(&mut group),
                None => Err(MlsError::UnexpectedMessageType),
            },
          });
          w.parties[p].mems[g].group = Some(group);
          res
        });
        let res = res?;
        self.stats.op("propose");
        match res {
            Err(e) => {
                let cls = err_class(&e);
                self.ev(format!("propose P{p} g{g} e{epoch} {spec:?} err {cls}"));
                self.stats.result(&format!("propose:err:{cls}"));
                crate::oracles::after_failed_op(self, p, g, "propose", &cls, pre, None)?;
                Ok(true)
            }
            Ok(m) => {
                let id = self.new_msg_id();
                let bytes = m.to_bytes().unwrap_or_default();
                crate::oracles::on_wire(self, &bytes, "proposal")?;
                let private = m.wire_format() == mls_rs::WireFormat::PrivateMessage;
                self.ev(format!(
                    "propose P{p} g{g} e{epoch} {spec:?} ok id={id} h={}",
                    short_hash(&bytes)
                ));
                self.stats.result("propose:ok");
                if let (PropSpec::Update { .. }, Some((sk, sid))) = (spec, new_id) {
                    self.ext.new_identities.insert(id, (sk, sid));
                }
                let msg = Msg {
                    id,
                    g,
                    kind: MsgKind::Proposal,
                    bytes,
                    sender: p,
                    epoch,
                    payload: vec![],
                    aad: vec![],
                    refs: vec![],
                    welcomes: vec![],
                    oob_tree: None,
                    external: false,
                    ext_psks: match spec {
                        PropSpec::ExtPsk { id } => vec![*id],
                        _ => vec![],
                    },
                    res_psks: match spec {
                        PropSpec::ResPsk { .. } => vec![extra.res_epoch],
                        _ => vec![],
                    },
                    private,
                    spec: None,
                    pspec: Some(spec.clone()),
                    time: self.clock,
                    gen: if private { self.next_gen(p, g, epoch, false) } else { 0 },
                };
                self.msgs.insert(id, msg);
                self.groups[g].props.entry(epoch).or_default().push(id);
                self.parties[p].mems[g].cached.insert(id);
                if private {
                    self.parties[p].mems[g].unwritten_sends += 1;
                    self.parties[p].mems[g].unwritten_epochs.insert(epoch);
                }
                // fan out to every other current member
                let members: Vec<usize> = self.groups[g]
                    .members
                    .get(&epoch)
                    .map(|m| m.keys().copied().collect())
                    .unwrap_or_default();
                for q in members {
                    if q != p {
                        self.mem(q, g).inbox.push(id);
                    }
                }
                crate::oracles::after_sent(self, p, g, id)?;
                Ok(true)
            }
        }
    }

    fn do_ds_pick(&mut self, g: usize, choice: u32) -> VResult<bool> {
        if g >= self.groups.len() {
            return Ok(false);
        }
        let epoch = self.groups[g].log.len() as u64;
        let cands = self.groups[g].candidates.remove(&epoch).unwrap_or_default();
        if cands.is_empty() {
            return Ok(false);
        }
        let win = cands[choice as usize % cands.len()];
        if cands.len() > 1 {
            self.stats.fault("N-RACE");
        }
        for c in &cands {
            if *c != win {
                self.groups[g].losers.push(*c);
                // an external committer whose commit lost holds a fork: discard it
                let s = self.msgs[c].sender;
                if self.msgs[c].external {
                    let m = self.mem(s, g);
                    if let Some((_, id)) = &m.ext_pending {
                        if id == c {
                            m.ext_pending = None;
                        }
                    }
                }
                // detached secrets of a losing commit stay with the committer (stale: C11)
            }
        }
        self.groups[g].log.push(win);
        let msg = self.msgs[&win].clone();
        if msg.spec.as_ref().map(|s| s.reinit.is_some()).unwrap_or(false) {
            // the delivery service knows the group ends here: nothing is accepted after a re-init commit
            self.groups[g].reinit_at = Some(epoch);
            self.groups[g].candidates.clear();
        }
        self.ev(format!(
            "ds-pick g{g} e{epoch} winner={win} of {} by P{}",
            cands.len(),
            msg.sender
        ));
        crate::oracles::feed_removed(self, g, win)?;
        // welcomes go out
        for (q, wb) in &msg.welcomes {
            let m = self.mem(*q, g);
            if m.status == Status::Never || m.status == Status::Removed {
                m.status = Status::Invited;
                m.welcome = Some((win, wb.clone(), msg.oob_tree.clone()));
            }
        }
        if msg.external {
            let s = msg.sender;
            let taken = self.mem(s, g).ext_pending.take();
            if let Some((grp, _)) = taken {
                let m = self.mem(s, g);
                if let Some(old) = m.group.take() {
                    m.removed_obj = Some(old);
                }
                m.group = Some(grp);
                m.status = Status::Member;
                m.cached.clear();
                m.accepted.clear();
                m.inbox.clear();
                m.pending = None;
                m.join_epoch = epoch + 1;
                m.join_kp = None;
                m.ret_pending.clear();
                m.ret_pending.insert(epoch);
                m.ret_nosecret.clear();
                m.ret_nosecret.insert(epoch);
                m.sent_gen.clear();
                m.ratchet_pos.clear();
                if !m.rejoined_same_storage {
                    m.ret_disk.clear();
                }
                self.parties[s].crashed = false;
                self.reached_epoch(s, g, "external-commit")?;
                crate::oracles::after_join(self, s, g, "external")?;
            }
        }
        Ok(true)
    }

    /// process one message at party p; returns the library's verdict
    pub fn process(
        &mut self,
        p: usize,
        g: usize,
        bytes: &[u8],
        what: &str,
    ) -> VResult<Result<ReceivedMessage, MlsError>> {
        crate::oracles::lib_call(self, p, Some(g), what, |w| w.process_raw(p, g, bytes, what))
    }

    fn process_raw(
        &mut self,
        p: usize,
        g: usize,
        bytes: &[u8],
        what: &str,
    ) -> VResult<Result<ReceivedMessage, MlsError>> {
        let prop = self.cfg.property.clone();
        let now = self.now();
        crypto::rec_set_phase(self.step_no as u64);
        let mut group = match self.parties[p].mems[g].group.take() {
            Some(g) => g,
            None => {
                return Ok(Err(MlsError::UnexpectedMessageType));
            }
        };
        let r = guarded(&prop, what, || {
            let m = MlsMessage::from_bytes(bytes)?;
            group.process_incoming_message_with_time(m, now)
        });
        self.parties[p].mems[g].group = Some(group);
        r
    }

    fn do_deliver_commit(&mut self, p: usize, g: usize, own_apply: bool) -> VResult<bool> {
        if !self.live(p, g) {
            return Ok(false);
        }
        let epoch = self.epoch_of(p, g).unwrap();
        if (epoch as usize) >= self.groups[g].log.len() {
            return Ok(false);
        }
        let cid = self.groups[g].log[epoch as usize];
        let msg = self.msgs[&cid].clone();
        let prop = self.cfg.property.clone();
        // reliable DS: make sure referenced proposals have been seen
        let withhold = self.cfg.fault("missing-proposal")
            && mix(&[self.seed, self.step_no as u64, 0x3155]) % 3 == 0
            && msg.refs.iter().any(|r| !self.parties[p].mems[g].cached.contains(r) && self.msgs[r].sender != p);
        if withhold {
            self.stats.fault("N-MISSING-PROPOSAL");
        }
        if !withhold {
            let missing: Vec<u64> = msg
                .refs
                .iter()
                .filter(|r| !self.parties[p].mems[g].cached.contains(r) && self.msgs[r].sender != p)
                .copied()
                .collect();
            for r in missing {
                self.deliver_one(p, g, r, true)?;
            }
        }
        let cache_now = self.parties[p].mems[g].cached.clone();
        self.ext.c10_cache_at_process.insert((p, cid), cache_now);
        let own = msg.sender == p && !msg.external;
        if own {
            // a commit built with build_detached is applied from the detached secrets
            if let Some(k) = self.parties[p].mems[g].detached.iter().position(|(c, _)| *c == cid) {
                return crate::oracles::do_apply_detached(self, p, g, k as u64);
            }
        }
        let has_pending = self.parties[p].mems[g].pending == Some(cid);
        let pre = crate::oracles::before_op(self, p, g, "process_commit")?;
        let expect = crate::oracles::expect_commit(self, p, g, cid);
        let res: Result<mls_rs::group::CommitMessageDescription, MlsError> = if own && has_pending && own_apply {
            crypto::rec_set_phase(self.step_no as u64);
            let r = crate::oracles::lib_call(self, p, Some(g), "apply_pending_commit", |w| {
                let mut group = w.parties[p].mems[g].group.take().unwrap();
                // a third of the time through the entry point that also understands pending commits of older versions
                let bc = mix(&[w.seed, w.step_no as u64, 0xbc]) % 3 == 0;
                let r = guarded(&prop, "apply_pending_commit", || {
                    if bc {
                        group.apply_pending_commit_backwards_compatible()
                    } else {
                        group.apply_pending_commit()
                    }
                });
                w.parties[p].mems[g].group = Some(group);
                r
            });
            self.stats.op("apply_pending_commit");
            r?
        } else {
            self.stats.op("process_commit");
            match self.process(p, g, &msg.bytes, "process_commit")? {
                Ok(ReceivedMessage::Commit(d)) => Ok(d),
                Ok(_) => Err(MlsError::UnexpectedMessageType),
                Err(e) => Err(e),
            }
        };
        match res {
            Ok(desc) => {
                self.stats.result("process_commit:ok");
                if own && !has_pending {
                    // a commit without update path holds nothing only its sender could know, so a member that
                    // lost its pending commit (crash) can process its own path-less commit like anybody else's
                    self.stats.probe("own-pathless-commit-reprocessed");
                }
                if expect == Expect::MustErr {
                    return Err(Violation::new(
                        &prop,
                        "commit-expectation",
                        "commit-accepted-but-must-fail".into(),
                        format!("P{p} accepted commit {cid} of epoch {epoch} although the model says it must fail"),
                    ));
                }
                let m = self.mem(p, g);
                m.pending = None;
                m.cached.clear();
                let removed = matches!(desc.effect, CommitEffect::Removed { .. });
                let reinit = matches!(desc.effect, CommitEffect::ReInit(_));
                self.ev(format!(
                    "deliver-commit P{p} g{g} e{epoch} id={cid} ok removed={removed} reinit={reinit} own={own}"
                ));
                // (an identity change inside a group does not change the identity the party's client uses for
                // key packages and joins: that one stays the key pair the client was built with)
                crate::oracles::after_commit_processed(self, p, g, cid, pre, &desc)?;
                if reinit {
                    // the re-init commit ends epoch `epoch` like any other commit: its record is kept
                    self.mem(p, g).ret_pending.insert(epoch);
                    self.groups[g].reinit_at = Some(epoch);
                    crate::oracles::after_reinit(self, p, g, cid)?;
                    return Ok(true);
                }
                if removed {
                    let m = self.mem(p, g);
                    m.status = Status::Removed;
                    m.join_kp = None;
                    m.removed_obj = m.group.take();
                    m.inbox.clear();
                    self.stats.probe("member-removed");
                    return Ok(true);
                }
                self.mem(p, g).ret_pending.insert(epoch);
                let new_epoch = self.epoch_of(p, g).unwrap();
                if new_epoch != epoch + 1 {
                    return Err(Violation::new(
                        &prop,
                        "epoch-step",
                        "epoch-not-plus-one".into(),
                        format!("P{p} went from epoch {epoch} to {new_epoch} by one commit"),
                    ));
                }
                self.reached_epoch(p, g, if own { "own-commit" } else { "commit" })?;
                // model: p must be in the new roster
                let in_roster = self.groups[g]
                    .members
                    .get(&new_epoch)
                    .map(|m| m.contains_key(&p))
                    .unwrap_or(false);
                if !in_roster {
                    return Err(Violation::new(
                        &prop,
                        "membership",
                        "member-not-in-roster".into(),
                        format!("P{p} follows epoch {new_epoch} but is not in the canonical roster"),
                    ));
                }
                if self.cfg.write_every > 0 && self.prng_free_chance(p, new_epoch) {
                    // write discipline: handled by generator (explicit Write actions)
                }
                Ok(true)
            }
            Err(e) => {
                let cls = err_class(&e);
                self.ev(format!("deliver-commit P{p} g{g} e{epoch} id={cid} err {cls}"));
                self.stats.result(&format!("process_commit:err:{cls}"));
                crate::oracles::after_rejected(self, p, g, cid, "commit", &cls, pre)?;
                if own && !has_pending {
                    let m = self.mem(p, g);
                    m.status = Status::Stuck("own commit lost".into());
                    *self.stats.stuck.entry("own-commit-lost".into()).or_default() += 1;
                    return Ok(true);
                }
                match expect {
                    Expect::MustOk => {
                        let same = self.parties[p].mems[g].rejoined_same_storage;
                        let sig = if same {
                            format!("rejoin-same-storage:commit-rejected:{cls}")
                        } else {
                            format!("genuine-commit-rejected:{cls}")
                        };
                        if self.known.iter().any(|k| *k == sig) {
                            self.ext.known_hits.push(sig);
                            let m = self.mem(p, g);
                            m.status = Status::Stuck("known finding: rejoined with the same storage".into());
                            return Ok(true);
                        }
                        Err(Violation::new(
                            &prop,
                            "liveness",
                            sig,
                            format!(
                                "P{p} (epoch {epoch}{}) rejected the genuine next commit {cid} from P{}: {e:?}",
                                if same { ", re-joined on the storage that still holds its earlier membership" } else { "" },
                                msg.sender
                            ),
                        ))
                    }
                    Expect::MustErr | Expect::May => {
                        if let Some(reason) = crate::oracles::stuck_reason(self, p, g, cid) {
                            let m = self.mem(p, g);
                            m.status = Status::Stuck(reason.clone());
                            *self.stats.stuck.entry(reason).or_default() += 1;
                        }
                        Ok(true)
                    }
                }
            }
        }
    }

    fn prng_free_chance(&self, _p: usize, _e: u64) -> bool {
        false
    }

    fn do_join(&mut self, p: usize, g: usize) -> VResult<bool> {
        if p >= self.parties.len() || g >= self.groups.len() {
            return Ok(false);
        }
        if self.parties[p].crashed {
            return Ok(false);
        }
        let Some((cid, wb, oob)) = self.mem(p, g).welcome.clone() else {
            return Ok(false);
        };
        let prop = self.cfg.property.clone();
        let client = self.parties[p].client.clone();
        let now = self.now();
        crypto::rec_set_phase(self.step_no as u64);
        let pre = crate::oracles::before_join(self, p, g)?;
        // C07: looking into the Welcome first (Client::examine_welcome_message) neither spends the key package nor
        // changes what joining gives
        let examined = if self.cfg.oracle("joiner") {
            Some(guarded(&prop, "examine_welcome_message", || {
                client.examine_welcome_message(&MlsMessage::from_bytes(&wb)?)
            })?)
        } else {
            None
        };
        let r = crate::oracles::lib_call(self, p, Some(g), "join_group", |_w| {
            guarded(&prop, "join_group", || {
                let w = MlsMessage::from_bytes(&wb)?;
                let tree = match &oob {
                    Some(t) => Some(mls_rs::group::ExportedTree::from_bytes(t)?),
                    None => None,
                };
                client.join_group(tree, &w, Some(now))
            })
        })?;
        self.stats.op("join");
        match r {
            Ok((group, _info)) => {
                let epoch = group.current_epoch();
                if let Some(ex) = &examined {
                    use mls_rs::mls_rs_codec::MlsEncode;
                    self.stats.check("examined-welcome-equals-joined-group");
                    let same = match ex {
                        Ok(gi) => {
                            gi.group_context().mls_encode_to_vec().ok() == group.context().mls_encode_to_vec().ok()
                                && gi.extensions() == &_info.group_info_extensions
                                && gi.sender() == _info.sender
                        }
                        Err(_) => false,
                    };
                    if !same {
                        return Err(Violation::new(
                            &prop,
                            "joiner-state",
                            format!("examine-welcome-differs:{}", ex.as_ref().err().map(err_class).unwrap_or_else(|| "content".into())),
                            format!(
                                "P{p}: examine_welcome_message on the Welcome of commit {cid} {} although joining with it succeeds (epoch {epoch})",
                                match ex {
                                    Ok(_) => "shows another group context, sender or extension list than the joined group has".to_string(),
                                    Err(e) => format!("fails with {e:?}"),
                                }
                            ),
                        ));
                    }
                }
                let m = self.mem(p, g);
                m.welcome = None;
                if let Some(old) = m.group.take() {
                    m.removed_obj = Some(old);
                }
                m.group = Some(group);
                m.status = Status::Member;
                m.join_epoch = epoch;
                m.cached.clear();
                m.accepted.clear();
                m.pending = None;
                m.durable = Default::default();
                m.ret_pending.clear();
                m.ret_nosecret.clear();
                m.sent_gen.clear();
                m.ratchet_pos.clear();
                if !m.rejoined_same_storage {
                    m.ret_disk.clear();
                }
                // which of p's key packages the Welcome addressed
                let kp = MlsMessage::from_bytes(&wb).ok().and_then(|wm| {
                    wm.welcome_key_package_references()
                        .into_iter()
                        .map(|r| r.to_vec())
                        .find(|r| self.kp_owner.get(r).map(|(o, _)| *o == p).unwrap_or(false))
                });
                self.mem(p, g).join_kp = kp;
                self.ev(format!("join P{p} g{g} via {cid} ok e{epoch}"));
                self.stats.result("join:ok");
                self.reached_epoch(p, g, "welcome")?;
                crate::oracles::after_join(self, p, g, "welcome")?;
                let _ = pre;
                Ok(true)
            }
            Err(e) => {
                let cls = err_class(&e);
                self.ev(format!("join P{p} g{g} via {cid} err {cls}"));
                self.stats.result(&format!("join:err:{cls}"));
                match crate::oracles::expect_join(self, p, g, cid) {
                    Expect::MustOk => Err(Violation::new(
                        &prop,
                        "liveness",
                        format!("genuine-welcome-rejected:{cls}"),
                        format!("P{p} could not join g{g} with the genuine Welcome of commit {cid}: {e:?}"),
                    )),
                    _ => {
                        let m = self.mem(p, g);
                        m.welcome = None;
                        m.status = Status::Never;
                        Ok(true)
                    }
                }
            }
        }
    }

    fn do_deliver(&mut self, p: usize, g: usize, k: u32, fate: &Fate) -> VResult<bool> {
        if !self.live(p, g) {
            return Ok(false);
        }
        let n = self.parties[p].mems[g].inbox.len();
        if n == 0 {
            return Ok(false);
        }
        let i = k as usize % n;
        let id = self.parties[p].mems[g].inbox[i];
        match fate {
            Fate::Drop => {
                self.parties[p].mems[g].inbox.remove(i);
                self.stats.fault("N-DROP");
                self.ev(format!("drop P{p} g{g} msg={id}"));
                self.ext.dropped.push((p, g, id));
                return Ok(true);
            }
            Fate::Dup => {
                self.stats.fault("N-DUP");
            }
            Fate::Normal => {
                self.parties[p].mems[g].inbox.remove(i);
            }
        }
        if i != 0 {
            self.stats.fault("N-REORD");
        }
        self.deliver_one(p, g, id, false)?;
        Ok(true)
    }

    /// deliver proposal / application message `id` to p and judge the outcome against the model
    pub fn deliver_one(&mut self, p: usize, g: usize, id: u64, forced: bool) -> VResult<()> {
        let msg = self.msgs[&id].clone();
        let prop = self.cfg.property.clone();
        let epoch = self.epoch_of(p, g).unwrap();
        if forced {
            self.parties[p].mems[g].inbox.retain(|x| *x != id);
        }
        let pre = crate::oracles::before_op(self, p, g, "process_msg")?;
        let expect = crate::oracles::expect_msg(self, p, g, id);
        self.stats.op(match msg.kind {
            MsgKind::App => "process_app",
            _ => "process_proposal",
        });
        let res = self.process(p, g, &msg.bytes, "process_incoming_message")?;
        match res {
            Ok(rm) => {
                self.ev(format!(
                    "deliver P{p} g{g} e{epoch} msg={id} ({:?} e{}) ok",
                    msg.kind, msg.epoch
                ));
                self.stats.result("process_msg:ok");
                if expect == Expect::MustErr {
                    return Err(Violation::new(
                        &prop,
                        "msg-expectation",
                        format!("accepted-but-must-fail:{:?}", msg.kind),
                        format!(
                            "P{p} (epoch {epoch}) accepted {:?} message {id} sent in epoch {} by P{} although the model says it must be rejected",
                            msg.kind, msg.epoch, msg.sender
                        ),
                    ));
                }
                match (&msg.kind, rm) {
                    (MsgKind::App, ReceivedMessage::ApplicationMessage(d)) => {
                        let want_idx = self.groups[g]
                            .members
                            .get(&msg.epoch)
                            .and_then(|m| m.get(&msg.sender))
                            .copied();
                        if Some(d.sender_index) != want_idx
                            || d.data() != &msg.payload[..]
                            || d.authenticated_data != msg.aad
                        {
                            return Err(Violation::new(
                                &prop,
                                "true-sender-payload",
                                "wrong-sender-or-payload".into(),
                                format!(
                                    "P{p} decrypted app message {id}: sender index {} (want {:?}), payload equal={}, aad equal={}",
                                    d.sender_index,
                                    want_idx,
                                    d.data() == &msg.payload[..],
                                    d.authenticated_data == msg.aad
                                ),
                            ));
                        }
                        self.parties[p].mems[g].accepted.insert(id);
                        let e = self.parties[p].mems[g].ratchet_pos.entry((msg.sender, msg.epoch, true)).or_insert(0);
                        *e = (*e).max(msg.gen + 1);
                        if msg.epoch < epoch {
                            self.stats.probe("late-app-decrypted");
                        }
                    }
                    (MsgKind::Proposal, ReceivedMessage::Proposal(d)) => {
                        self.parties[p].mems[g].cached.insert(id);
                        if msg.private {
                            let e = self.parties[p].mems[g].ratchet_pos.entry((msg.sender, msg.epoch, false)).or_insert(0);
                            *e = (*e).max(msg.gen + 1);
                        }
                        crate::oracles::after_proposal_received(self, p, g, id, &d)?;
                    }
                    (k, _) => {
                        return Err(Violation::new(
                            &prop,
                            "msg-kind",
                            "wrong-kind".into(),
                            format!("P{p} processed {k:?} message {id} but the library reported another kind"),
                        ));
                    }
                }
                crate::oracles::after_accepted(self, p, g, id, pre)?;
                Ok(())
            }
            Err(e) => {
                let cls = err_class(&e);
                self.ev(format!(
                    "deliver P{p} g{g} e{epoch} msg={id} ({:?} e{}) err {cls}",
                    msg.kind, msg.epoch
                ));
                self.stats.result(&format!("process_msg:err:{cls}"));
                crate::oracles::after_rejected(
                    self,
                    p,
                    g,
                    id,
                    if msg.kind == MsgKind::App { "app" } else { "proposal" },
                    &cls,
                    pre,
                )?;
                if expect == Expect::MustOk {
                    return Err(Violation::new(
                        &prop,
                        "liveness",
                        format!("genuine-msg-rejected:{:?}:{cls}", msg.kind),
                        format!(
                            "P{p} (epoch {epoch}) rejected genuine {:?} message {id} sent in epoch {} by P{}: {e:?}",
                            msg.kind, msg.epoch, msg.sender
                        ),
                    ));
                }
                // a message that arrived too early is queued again once
                if msg.epoch > epoch && !self.ext.requeued.contains(&(p, id)) {
                    self.ext.requeued.insert((p, id));
                    self.mem(p, g).inbox.push(id);
                }
                Ok(())
            }
        }
    }

    fn do_send_app(&mut self, p: usize, g: usize, len: u16, aad_len: u8) -> VResult<bool> {
        self.send_app_inner(p, g, len, aad_len, false)
    }

    /// `front`: the message overtakes everything queued for its receivers (reordering fault)
    pub fn send_app_inner(&mut self, p: usize, g: usize, len: u16, aad_len: u8, front: bool) -> VResult<bool> {
        if !self.live(p, g) {
            return Ok(false);
        }
        let prop = self.cfg.property.clone();
        let epoch = self.epoch_of(p, g).unwrap();
        let mut r = Prng::new(mix(&[self.seed, 0xa99, self.step_no as u64, self.sub]));
        let payload = r.bytes(len as usize);
        let aad = r.bytes(aad_len as usize);
        let pre = crate::oracles::before_op(self, p, g, "send_app")?;
        crypto::rec_set_phase(self.step_no as u64);
        let _ = crypto::rec_take_events();
        let res = crate::oracles::lib_call(self, p, Some(g), "encrypt_application_message", |w| {
            let mut group = w.parties[p].mems[g].group.take().unwrap();
            let res = guarded(&prop, "encrypt_application_message", || {
                group.encrypt_application_message(&payload, aad.clone())
            });
            w.parties[p].mems[g].group = Some(group);
            res
        });
        let res = res?;
        self.stats.op("send_app");
        match res {
            Err(e) => {
                let cls = err_class(&e);
                self.ev(format!("send-app P{p} g{g} e{epoch} err {cls}"));
                self.stats.result(&format!("send_app:err:{cls}"));
                if cls != "CommitRequired" {
                    crate::oracles::after_failed_op(self, p, g, "send_app", &cls, pre, None)?;
                    return Err(Violation::new(
                        &prop,
                        "liveness",
                        format!("send-app-failed:{cls}"),
                        format!("P{p} could not encrypt an application message in epoch {epoch}: {e:?}"),
                    ));
                }
                Ok(true)
            }
            Ok(m) => {
                let id = self.new_msg_id();
                let bytes = m.to_bytes().unwrap_or_default();
                crate::oracles::on_wire(self, &bytes, "application")?;
                self.ev(format!(
                    "send-app P{p} g{g} e{epoch} id={id} len={len} h={}",
                    short_hash(&bytes)
                ));
                self.stats.result("send_app:ok");
                let msg = Msg {
                    id,
                    g,
                    kind: MsgKind::App,
                    bytes,
                    sender: p,
                    epoch,
                    payload,
                    aad,
                    refs: vec![],
                    welcomes: vec![],
                    oob_tree: None,
                    external: false,
                    ext_psks: vec![],
                    res_psks: vec![],
                    private: true,
                    spec: None,
                    pspec: None,
                    time: self.clock,
                    gen: self.next_gen(p, g, epoch, true),
                };
                self.msgs.insert(id, msg);
                self.groups[g].apps.push(id);
                self.parties[p].mems[g].unwritten_sends += 1;
                self.parties[p].mems[g].unwritten_epochs.insert(epoch);
                let members: Vec<usize> = self.groups[g]
                    .members
                    .get(&epoch)
                    .map(|m| m.keys().copied().collect())
                    .unwrap_or_default();
                for q in members {
                    if q != p {
                        if front {
                            self.mem(q, g).inbox.insert(0, id);
                        } else {
                            self.mem(q, g).inbox.push(id);
                        }
                    }
                }
                crate::oracles::after_sent(self, p, g, id)?;
                Ok(true)
            }
        }
    }

    pub fn do_write(&mut self, p: usize, g: usize) -> VResult<bool> {
        let has = self
            .mem_ref(p, g)
            .map(|m| m.group.is_some() && matches!(m.status, Status::Member | Status::Stuck(_)))
            .unwrap_or(false);
        if !has {
            return Ok(false);
        }
        let prop = self.cfg.property.clone();
        if self.step_no > 1000 {
            self.ext.final_written.insert((p, g));
        }
        if let Some(grp) = self.parties[p].mems[g].group.as_ref() {
            if let Ok((ins, upd)) = grp.verif_repo_pending() {
                if !upd.is_empty() {
                    self.stats.probe("write-with-epoch-updates");
                    if self.groups.len() > 1 {
                        self.stats.probe("write-with-epoch-updates-in-two-group-world");
                    }
                }
                if ins.len() > 1 {
                    self.stats.probe("write-with-several-epoch-inserts");
                }
            }
        }
        let pre = crate::oracles::before_op(self, p, g, "write")?;
        // knob tree-oob: the application keeps the ratchet tree itself (write_to_storage_without_ratchet_tree +
        // load_group_with_ratchet_tree)
        let oob = self.oob();
        // C07: the key-package store fails once when the joiner's first write wants to delete the used key package;
        // the retried write must succeed and must still delete it
        let inject = self.cfg.fault("S-KP-DELETE-ERR")
            && self.parties[p].mems[g].join_kp.is_some()
            && mix(&[self.seed, self.step_no as u64, 0x6b70]) % 2 == 0;
        if inject {
            self.parties[p].faults.lock().unwrap().fail_what = Some("kp.delete");
        }
        // S-SQL-INNER: a statement of the SQLite provider's write fails (full disk, I/O error) after earlier
        // statements of the same write have run: the write must return an error, the stored history must be exactly
        // what it was (one transaction), the member must be unchanged, and the repeated write must succeed
        let mut done_by_fault_attempt = false;
        if self.cfg.fault("S-SQL-INNER")
            && matches!(self.parties[p].gstore.backend, crate::seams::Backend::Sql(_))
            && mix(&[self.seed, self.step_no as u64, 0x5151]) % 3 == 0
        {
            let k = (mix(&[self.seed, self.step_no as u64, 0x5152]) % 10) as u32;
            let gid = self.groups[g].gid.clone();
            let disk0 = self.parties[p].gstore.view(&gid);
            let state0 = crate::oracles::h1(self.parties[p].mems[g].group.as_ref().unwrap()).unwrap_or_default();
            self.parties[p].gstore.sqlctl.arm(k);
            let mut group = self.parties[p].mems[g].group.take().unwrap();
            let r = guarded(&prop, "write_to_storage(failing SQL statement)", || write_group(&mut group, oob));
            self.parties[p].mems[g].group = Some(group);
            let (_seen, fired) = self.parties[p].gstore.sqlctl.disarm();
            let r = r?;
            if fired > 0 {
                self.stats.fault("S-SQL-INNER");
                *self.stats.probes.entry(format!("sql-statement-failed:action-{k}")).or_default() += 1;
                self.stats.check("failed-sqlite-write-leaves-no-trace");
                if r.is_ok() {
                    return Err(Violation::new(
                        &prop,
                        "provider-error-surfaces",
                        "error-swallowed:write_to_storage:sql-statement".into(),
                        format!("P{p}: write_to_storage returned Ok although a statement of the SQLite write failed (row-changing action {k})"),
                    ));
                }
                let disk1 = self.parties[p].gstore.view(&gid);
                if disk1 != disk0 {
                    return Err(Violation::new(
                        &prop,
                        "disk-unchanged-after-error",
                        "partial-sqlite-write".into(),
                        format!(
                            "P{p}: write_to_storage failed inside the SQLite provider (row-changing action {k} denied) but the stored history changed: snapshot equal = {}, epochs {:?} -> {:?}",
                            disk0.state == disk1.state,
                            disk0.epochs.keys().collect::<Vec<_>>(),
                            disk1.epochs.keys().collect::<Vec<_>>()
                        ),
                    ));
                }
                let state1 = crate::oracles::h1(self.parties[p].mems[g].group.as_ref().unwrap()).unwrap_or_default();
                let d = crate::oracles::diff_states(&state0, &state1, None);
                if !d.is_empty() {
                    return Err(Violation::new(
                        &prop,
                        "state-unchanged-after-error",
                        format!("changed:{}:failed-sqlite-write", d.join("+")),
                        format!("P{p}: a write_to_storage that failed inside the SQLite provider changed the member: {:?}", d),
                    ));
                }
                self.ev(format!("write P{p} g{g}: SQL statement (action {k}) failed, nothing stored, retrying"));
            } else if r.is_ok() {
                // the write has fewer row-changing actions than k: it was an ordinary successful write (a twin, if
                // any, did not take part in it)
                self.ext.twins.remove(&(p, g));
                done_by_fault_attempt = true;
            }
        }
        let res = if done_by_fault_attempt {
            Ok(Ok(()))
        } else {
            crate::oracles::lib_call(self, p, Some(g), "write_to_storage", |w| {
                let mut group = w.parties[p].mems[g].group.take().unwrap();
                let res = guarded(&prop, "write_to_storage", || write_group(&mut group, oob));
                w.parties[p].mems[g].group = Some(group);
                res
            })
        };
        let mut res = res?;
        if inject {
            let fired = self.parties[p].faults.lock().unwrap().fail_what.take().is_none();
            if fired && res.is_err() {
                self.stats.fault("S-KP-DELETE-ERR");
                self.ev(format!("write P{p} g{g}: key-package delete failed once, retrying"));
                res = crate::oracles::lib_call(self, p, Some(g), "write_to_storage", |w| {
                    let mut group = w.parties[p].mems[g].group.take().unwrap();
                    let res = guarded(&prop, "write_to_storage", || write_group(&mut group, oob));
                    w.parties[p].mems[g].group = Some(group);
                    res
                })?;
            }
        }
        self.stats.op("write");
        match res {
            Ok(()) => {
                let m = self.mem(p, g);
                let cleared: BTreeSet<u64> = self.ext.cache_cleared.iter().filter(|(q, h, _)| *q == p && *h == g).map(|(_, _, id)| *id).collect();
                let m = self.mem(p, g);
                m.durable = Durable {
                    cached: m.cached.clone(),
                    pending: m.pending,
                    accepted: m.accepted.clone(),
                    valid: true,
                    sent_gen: m.sent_gen.clone(),
                    ratchet_pos: m.ratchet_pos.clone(),
                    cleared,
                };
                m.unwritten_sends = 0;
                m.unwritten_epochs.clear();
                if oob {
                    m.tree_disk = m.group.as_ref().and_then(|g| g.export_tree().to_bytes().ok());
                }
                if !m.ret_pending.is_empty() || true {
                    let pend = std::mem::take(&mut m.ret_pending);
                    m.ret_disk.extend(pend);
                    let r = self.cfg.retention as usize;
                    let m = self.mem(p, g);
                    while m.ret_disk.len() > r {
                        let first = *m.ret_disk.iter().next().unwrap();
                        m.ret_disk.remove(&first);
                    }
                }
                self.ev(format!("write P{p} g{g} ok"));
                crate::oracles::after_write(self, p, g, pre)?;
                Ok(true)
            }
            Err(e) => {
                let cls = err_class(&e);
                self.ev(format!("write P{p} g{g} err {cls}"));
                crate::oracles::after_failed_op(self, p, g, "write", &cls, pre, None)?;
                Err(Violation::new(
                    &prop,
                    "liveness",
                    format!("write-failed:{cls}"),
                    format!("P{p} could not write g{g} to fault-free storage: {e:?}"),
                ))
            }
        }
    }

    pub fn do_crash(&mut self, p: usize) -> VResult<bool> {
        if p >= self.parties.len() || self.parties[p].crashed {
            return Ok(false);
        }
        let mut any = false;
        let mut rolled = vec![];
        for (gi, m) in self.parties[p].mems.iter_mut().enumerate() {
            if m.group.is_some() && matches!(m.status, Status::Member | Status::Stuck(_)) {
                if m.unwritten_sends > 0 {
                    // the ratchets of every epoch it sent in since the last write go back to their stored position
                    // (the member may have moved on to a later epoch in memory meanwhile)
                    rolled.push((p, gi, m.group.as_ref().unwrap().current_epoch()));
                    for e in std::mem::take(&mut m.unwritten_epochs) {
                        rolled.push((p, gi, e));
                    }
                    m.unwritten_sends = 0;
                }
                m.group = None;
                any = true;
            }
            m.ext_pending = None;
        }
        if !any {
            return Ok(false);
        }
        if !rolled.is_empty() {
            self.stats.probe("crash-with-unwritten-sends");
        }
        self.ext.rolled_back.extend(rolled);
        self.ext.twins.retain(|(q, _), _| *q != p);
        self.parties[p].crashed = true;
        self.stats.fault("P-CRASH");
        self.ev(format!("crash P{p}"));
        Ok(true)
    }

    pub fn oob(&self) -> bool {
        self.cfg.knob("tree-oob").is_some()
    }

    pub fn do_reload(&mut self, p: usize, g: usize) -> VResult<bool> {
        if p >= self.parties.len() || g >= self.groups.len() {
            return Ok(false);
        }
        let need = self
            .mem_ref(p, g)
            .map(|m| m.group.is_none() && matches!(m.status, Status::Member | Status::Stuck(_)))
            .unwrap_or(false);
        if !need {
            return Ok(false);
        }
        let prop = self.cfg.property.clone();
        let gid = self.groups[g].gid.clone();
        // a restarted process builds a new client on the same disk
        let party = &self.parties[p];
        let client = make_client(
            &party.crypto,
            &party.identity,
            &party.rules,
            &party.gstore,
            &party.kpstore,
            &party.pskstore,
            &party.signing_identity,
            &party.signer,
            self.suite,
        );
        let tree_disk = if self.oob() { self.parties[p].mems[g].tree_disk.clone() } else { None };
        if tree_disk.is_some() {
            self.stats.probe("reload-with-tree-from-the-application");
        }
        let r = crate::oracles::lib_call(self, p, Some(g), "load_group", |_w| {
            guarded(&prop, "load_group", || load_group_oob(&client, &gid, tree_disk.as_deref()))
        })?;
        self.parties[p].client = client;
        self.parties[p].crashed = false;
        self.stats.op("reload");
        match r {
            Ok(group) => {
                let epoch = group.current_epoch();
                let valid = self.parties[p].mems[g].durable.valid;
                if !valid {
                    return Err(Violation::new(
                        &prop,
                        "durability",
                        "loaded-without-write".into(),
                        format!("P{p} loaded g{g} although it never wrote it"),
                    ));
                }
                let m = self.mem(p, g);
                m.group = Some(group);
                m.cached = m.durable.cached.clone();
                m.pending = m.durable.pending;
                m.accepted = m.durable.accepted.clone();
                m.sent_gen = m.durable.sent_gen.clone();
                m.ret_pending.clear();
                m.ratchet_pos = m.durable.ratchet_pos.clone();
                // what was dropped with clear_proposal_cache after the last write is back as it was then
                let cleared = m.durable.cleared.clone();
                self.ext.cache_cleared.retain(|(q, h, _)| !(*q == p && *h == g));
                self.ext.cache_cleared.extend(cleared.into_iter().map(|id| (p, g, id)));
                self.stats.fault("P-RELOAD");
                self.ev(format!("reload P{p} g{g} ok e{epoch}"));
                // re-enqueue proposals of the current epoch that were lost with the crash
                let props = self.groups[g].props.get(&epoch).cloned().unwrap_or_default();
                for id in props {
                    let m = self.mem(p, g);
                    if !m.cached.contains(&id) && !m.inbox.contains(&id) && self.msgs[&id].sender != p {
                        self.mem(p, g).inbox.push(id);
                    }
                }
                crate::oracles::after_reload(self, p, g)?;
                Ok(true)
            }
            Err(e) => {
                let cls = err_class(&e);
                self.ev(format!("reload P{p} g{g} err {cls}"));
                if self.parties[p].mems[g].durable.valid {
                    return Err(Violation::new(
                        &prop,
                        "durability",
                        format!("load-failed:{cls}"),
                        format!("P{p} wrote g{g} earlier but load_group fails: {e:?}"),
                    ));
                }
                let m = self.mem(p, g);
                m.status = Status::Stuck("lost state (crash before first write)".into());
                *self.stats.stuck.entry("lost-state".into()).or_default() += 1;
                Ok(true)
            }
        }
    }

    fn do_clear_pending(&mut self, p: usize, g: usize) -> VResult<bool> {
        if !self.live(p, g) {
            return Ok(false);
        }
        let Some(cid) = self.parties[p].mems[g].pending else {
            return Ok(false);
        };
        // only a commit the DS has not accepted may be withdrawn
        if self.groups[g].log.contains(&cid) {
            return Ok(false);
        }
        let epoch = self.msgs[&cid].epoch;
        if let Some(c) = self.groups[g].candidates.get_mut(&epoch) {
            c.retain(|x| *x != cid);
        }
        self.groups[g].withdrawn.push(cid);
        let pre = crate::oracles::before_op(self, p, g, "clear_pending")?;
        let _ = crate::oracles::lib_call(self, p, Some(g), "clear_pending_commit", |w| {
            w.parties[p].mems[g].group.as_mut().unwrap().clear_pending_commit();
            Ok(Ok(()))
        })?;
        self.parties[p].mems[g].pending = None;
        self.stats.op("clear_pending");
        self.ev(format!("clear-pending P{p} g{g} id={cid}"));
        crate::oracles::after_clear_pending(self, p, g, pre)?;
        Ok(true)
    }

    fn do_ext_commit(&mut self, p: usize, g: usize, remove_old: bool, psk: Option<u8>) -> VResult<bool> {
        if p >= self.parties.len() || g >= self.groups.len() || self.parties[p].crashed && !remove_old {
            return Ok(false);
        }
        let prop = self.cfg.property.clone();
        let latest = self.groups[g].log.len() as u64;
        if self.mem(p, g).ext_pending.is_some() || self.mem(p, g).welcome.is_some() {
            return Ok(false);
        }
        if self.groups[g].reinit_at.is_some() {
            return Ok(false);
        }
        if self.multi() && !self.cfg.same_storage_rejoin {
            let st = self.mem(p, g).status.clone();
            if st != Status::Never {
                return Ok(false);
            }
        }
        let in_roster = self.groups[g]
            .members
            .get(&latest)
            .map(|m| m.contains_key(&p))
            .unwrap_or(false);
        if remove_old != in_roster {
            return Ok(false);
        }
        if in_roster && self.live(p, g) && self.epoch_of(p, g) == Some(latest) {
            // a healthy member has no reason to replace itself
            return Ok(false);
        }
        // a member that is up to date provides the GroupInfo
        let Some(src) = self
            .live_members(g)
            .into_iter()
            .find(|q| self.epoch_of(*q, g) == Some(latest) && *q != p)
        else {
            return Ok(false);
        };
        let with_tree = self.prng_peek_bool();
        let gi = {
            let group = self.parties[src].mems[g].group.as_ref().unwrap();
            guarded(&prop, "group_info_message", || {
                group.group_info_message_allowing_ext_commit(with_tree)
            })?
        };
        let gi = match gi {
            Ok(m) => m,
            Err(e) => {
                self.ev(format!("ext-commit P{p} g{g}: no group info: {}", err_class(&e)));
                return Ok(true);
            }
        };
        let gi_bytes = gi.to_bytes().unwrap_or_default();
        crate::oracles::on_wire(self, &gi_bytes, "group_info")?;
        let tree_bytes = if with_tree {
            None
        } else {
            let group = self.parties[src].mems[g].group.as_ref().unwrap();
            group.export_tree().to_bytes().ok()
        };
        let old_idx = if remove_old {
            self.groups[g].members[&latest].get(&p).copied()
        } else {
            None
        };
        if !remove_old {
            self.prepare_rejoin(p, g)?;
        } else if !self.cfg.same_storage_rejoin && self.mem(p, g).durable.valid {
            // resynchronising from a device that still holds stored epochs of this group is the
            // "same storage" case (C07); everywhere else the party comes back on a fresh device
            let gen = self.parties[p].generation + 1;
            let mut np = self.make_party(p, gen)?;
            std::mem::swap(&mut np.mems, &mut self.parties[p].mems);
            np.pskstore.copy_from(&self.parties[p].pskstore);
            np.crashed = self.parties[p].crashed;
            self.parties[p] = np;
            self.mem(p, g).durable = Default::default();
            self.stats.probe("resync-new-device");
        }
        let client = self.parties[p].client.clone();
        let now = self.now();
        if self.cfg.oracle("joiner") {
            // C07: Client::validate_group_info accepts the GroupInfo under the identity of the member that signed it
            // and under no other member's identity
            let signer = self.parties[src].mems[g].group.as_ref().and_then(|x| x.current_member_signing_identity().ok().cloned());
            let other = self
                .live_members(g)
                .into_iter()
                .filter(|q| *q != src)
                .filter_map(|q| self.parties[q].mems[g].group.as_ref().and_then(|x| x.current_member_signing_identity().ok().cloned()))
                .find(|i| Some(i) != signer.as_ref());
            if let Some(signer) = signer {
                let r = guarded(&prop, "validate_group_info", || client.validate_group_info(&MlsMessage::from_bytes(&gi_bytes)?, &signer))?;
                self.stats.check("group-info-validates-under-its-signer-only");
                if let Err(e) = r {
                    return Err(Violation::new(
                        &prop,
                        "joiner-state",
                        format!("genuine-group-info-refused:{}", err_class(&e)),
                        format!("P{p}: validate_group_info refuses the GroupInfo P{src} made for epoch {latest} under P{src}'s own signing identity: {e:?}"),
                    ));
                }
                if let Some(other) = other {
                    let r = guarded(&prop, "validate_group_info(other signer)", || client.validate_group_info(&MlsMessage::from_bytes(&gi_bytes)?, &other))?;
                    if r.is_ok() {
                        return Err(Violation::new(
                            &prop,
                            "joiner-state",
                            "group-info-validates-under-another-identity".into(),
                            format!("P{p}: validate_group_info accepts the GroupInfo P{src} signed under the signing identity of another member"),
                        ));
                    }
                }
            }
        }
        crypto::rec_set_phase(self.step_no as u64);
        let r = crate::oracles::lib_call(self, p, Some(g), "external_commit", |_w| guarded(&prop, "external_commit", || {
            let mut b = client.external_commit_builder()?.commit_time(now);
            if let Some(t) = &tree_bytes {
                b = b.with_tree_data(mls_rs::group::ExportedTree::from_bytes(t)?.into_owned());
            }
            if let Some(i) = old_idx {
                b = b.with_removal(i);
            }
            if let Some(id) = psk {
                b = b.with_external_psk(mls_rs::psk::ExternalPskId::new(vec![b'k', id]));
            }
            b.build(MlsMessage::from_bytes(&gi_bytes)?)
        }))?;
        self.stats.op("ext_commit");
        match r {
            Err(e) => {
                let cls = err_class(&e);
                self.ev(format!("ext-commit P{p} g{g} e{latest} err {cls}"));
                self.stats.result(&format!("ext_commit:err:{cls}"));
                if self.legacy() == Some(p) && self.ctx_has_f001(g, latest) {
                    // a device that does not support an extension type of the group context cannot join
                    self.stats.probe("legacy-device-external-commit-refused");
                    return Ok(true);
                }
                if psk.is_none() {
                    // same storage as an earlier membership of this group (C07's returning member)
                    let gid = self.groups[g].gid.clone();
                    let same = self.cfg.same_storage_rejoin && self.parties[p].gstore.view(&gid).max_epoch.is_some();
                    if same {
                        let sig = format!("rejoin-same-storage:external-commit-failed:{cls}");
                        if self.known.iter().any(|k| *k == sig) {
                            self.ext.known_hits.push(sig);
                            return Ok(true);
                        }
                        return Err(Violation::new(
                            &prop,
                            "liveness",
                            sig,
                            format!("P{p}, whose storage still holds epochs of an earlier membership of g{g}, could not build an external commit from P{src}'s current GroupInfo: {e:?}"),
                        ));
                    }
                    return Err(Violation::new(
                        &prop,
                        "liveness",
                        format!("external-commit-failed:{cls}"),
                        format!("P{p} could not build an external commit from P{src}'s current GroupInfo: {e:?}"),
                    ));
                }
                Ok(true)
            }
            Ok((group, cm)) => {
                if self.legacy() == Some(p) && self.ctx_has_f001(g, latest) {
                    return Err(Violation::new(
                        &prop,
                        "unsupported-capabilities",
                        "unsupporting-device-joined-by-external-commit".into(),
                        format!("P{p}, whose device does not support extension type 0xF001, built an external commit into g{g} whose context carries that extension"),
                    ));
                }
                let id = self.new_msg_id();
                let bytes = cm.to_bytes().unwrap_or_default();
                crate::oracles::on_wire(self, &bytes, "commit")?;
                self.ev(format!(
                    "ext-commit P{p} g{g} e{latest} ok id={id} remove_old={remove_old} h={}",
                    short_hash(&bytes)
                ));
                self.stats.result("ext_commit:ok");
                self.stats.probe(if remove_old { "ext-commit-resync" } else { "ext-commit-join" });
                let msg = Msg {
                    id,
                    g,
                    kind: MsgKind::Commit,
                    bytes,
                    sender: p,
                    epoch: latest,
                    payload: vec![],
                    aad: vec![],
                    refs: vec![],
                    welcomes: vec![],
                    oob_tree: None,
                    external: true,
                    ext_psks: psk.into_iter().collect(),
                    res_psks: vec![],
                    private: false,
                    spec: None,
                    pspec: None,
                    time: self.clock,
                    gen: 0,
                };
                self.msgs.insert(id, msg);
                self.ext.commit_has_path.insert(id, true);
                self.mem(p, g).ext_pending = Some((group, id));
                self.groups[g].candidates.entry(latest).or_default().push(id);
                crate::oracles::after_ext_commit_built(self, p, g, id)?;
                Ok(true)
            }
        }
    }

    fn prng_peek_bool(&self) -> bool {
        mix(&[self.seed, self.step_no as u64, 0xb001]) & 1 == 1
    }

    fn do_stale_commit(&mut self, p: usize, g: usize, k: u32) -> VResult<bool> {
        if !self.live(p, g) {
            return Ok(false);
        }
        let epoch = self.epoch_of(p, g).unwrap();
        let mut pool: Vec<u64> = self.groups[g].losers.clone();
        for (e, c) in self.groups[g].log.iter().enumerate() {
            if (e as u64) < epoch {
                pool.push(*c);
            }
        }
        // commits this party still holds as pending are "own" messages, not stale ones; a race loser made
        // for the member's *current* epoch is a valid commit from its point of view (choosing the winner
        // is the delivery service's job), so only commits for another epoch count as stale
        pool.retain(|c| Some(*c) != self.parties[p].mems[g].pending && self.msgs[c].epoch != epoch);
        // a commit with update path that p itself built and then withdrew can never be processed by p again,
        // whatever epoch it is for (CantProcessMessageFromSelf)
        for c in &self.groups[g].withdrawn {
            let m = &self.msgs[c];
            if m.sender == p
                && Some(*c) != self.parties[p].mems[g].pending
                && self.ext.commit_has_path.get(c).copied().unwrap_or(false)
                && !pool.contains(c)
            {
                pool.push(*c);
            }
        }
        if pool.is_empty() {
            return Ok(false);
        }
        let cid = pool[k as usize % pool.len()];
        let msg = self.msgs[&cid].clone();
        let prop = self.cfg.property.clone();
        let pre = crate::oracles::before_op(self, p, g, "process_stale_commit")?;
        self.stats.fault("N-STALE-COMMIT");
        let res = self.process(p, g, &msg.bytes, "process_stale_commit")?;
        match res {
            Ok(_) => {
                Err(Violation::new(
                    &prop,
                    "wrong-epoch-commit",
                    "stale-commit-accepted".into(),
                    format!(
                        "P{p} at epoch {epoch} accepted commit {cid} made for epoch {} ({})",
                        msg.epoch,
                        if self.groups[g].losers.contains(&cid) { "race loser" } else { "already applied" }
                    ),
                ))
            }
            Err(e) => {
                let cls = err_class(&e);
                self.ev(format!("stale-commit P{p} g{g} e{epoch} id={cid} (e{}) err {cls}", msg.epoch));
                self.stats.result(&format!("stale_commit:err:{cls}"));
                crate::oracles::after_rejected(self, p, g, cid, "stale-commit", &cls, pre)?;
                Ok(true)
            }
        }
    }
}

#[derive(Clone, Copy, Debug, PartialEq, Eq)]
pub enum Expect {
    MustOk,
    MustErr,
    May,
}

pub fn short_hash(b: &[u8]) -> String {
    hex::encode(&Sha256::digest(b)[..6])
}

pub fn action_kind(a: &Action) -> &'static str {
    match a {
        Action::Tick { .. } => "tick",
        Action::Commit { .. } => "commit",
        Action::Propose { .. } => "propose",
        Action::DsPick { .. } => "ds_pick",
        Action::DeliverCommit { .. } => "deliver_commit",
        Action::Join { .. } => "join",
        Action::Deliver { .. } => "deliver",
        Action::SendApp { .. } => "send_app",
        Action::Write { .. } => "write",
        Action::Crash { .. } => "crash",
        Action::Reload { .. } => "reload",
        Action::ClearPending { .. } => "clear_pending",
        Action::ApplyPendingEarly { .. } => "apply_early",
        Action::ExtCommit { .. } => "ext_commit",
        Action::StaleCommit { .. } => "stale_commit",
        Action::Corrupt { .. } => "corrupt",
        Action::Replay { .. } => "replay",
        Action::Special { .. } => "special",
    }
}

#[allow(dead_code)]
fn _unused(_: Option<(SignaturePublicKey, ExtensionList, Mutex<()>)>) {}
