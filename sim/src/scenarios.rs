//! Property-specific scenario drivers: extra action kinds, swarm adjustments.

use crate::prng::Prng;
use crate::types::*;
use crate::world::*;

pub fn adjust(_cfg: &mut SwarmCfg, _tier: &str, _r: &mut Prng) {}

pub fn extra_kinds(_w: &World, _kinds: &mut Vec<(&'static str, u32)>) {}

pub fn extra_action(_w: &mut World, _kind: &str) -> Option<Action> {
    None
}

pub fn adjust_commit(_w: &mut World, _p: usize, _g: usize, _spec: &mut CommitSpec) {}

pub fn prop_spec_override(
    _w: &mut World,
    _p: usize,
    _g: usize,
    _opts: &mut Vec<u32>,
) -> Option<PropSpec> {
    None
}

/// run-level set-up after the world is created (who creates the group, PSK distribution, ...)
pub fn setup(w: &mut World) -> VResult<()> {
    w.create_group(0)?;
    Ok(())
}

/// run-level checks at the end of a run (after the heal phase)
pub fn finish(_w: &mut World) -> VResult<()> {
    Ok(())
}
