//! Property-specific scenario drivers: swarm adjustments per property, extra action kinds.

use crate::prng::Prng;
use crate::seams::StorageKind;
use crate::types::*;
use crate::world::*;

fn sv(v: &[&str]) -> Vec<String> {
    v.iter().map(|s| s.to_string()).collect()
}

fn setw(cfg: &mut SwarmCfg, k: &str, w: u32) {
    if let Some(e) = cfg.weights.iter_mut().find(|(n, _)| n == k) {
        e.1 = w;
    } else {
        cfg.weights.push((k.to_string(), w));
    }
}

pub fn adjust(cfg: &mut SwarmCfg, tier: &str, r: &mut Prng) {
    let thorough = tier == "thorough";
    let _ = thorough;
    match cfg.property.as_str() {
        "C03" => {
            cfg.oracles = sv(&["agreement", "modified-rejected"]);
            cfg.faults = sv(&["N-FLIP", "N-TRUNC", "N-SPLICE", "N-DUP", "N-REORD", "N-RACE", "N-STALE"]);
            setw(cfg, "corrupt", 40);
            setw(cfg, "byz", 8);
            setw(cfg, "forge", 6);
            cfg.faults.push("B-FORGE".into());
            cfg.faults.push("B-MOD".into());
            setw(cfg, "stale_commit", 3);
            setw(cfg, "send_app", 14);
            setw(cfg, "propose", 10);
            setw(cfg, "nm_propose", 4);
            cfg.n_parties = cfg.n_parties.min(6);
            if !cfg.encrypt_handshake && r.chance(1, 3) {
                // two groups among the same parties: messages of one are offered to members of the other
                cfg.scenario = "two-groups".into();
                cfg.knobs.push(("groups".into(), 2));
                cfg.faults.push("N-XGROUP".into());
                setw(cfg, "xgroup", 10);
                setw(cfg, "nm_propose", 8);
            }
        }
        "C04" => {
            cfg.oracles = sv(&["agreement", "state-unchanged", "modified-rejected"]);
            cfg.faults = sv(&[
                "N-FLIP", "N-TRUNC", "N-SPLICE", "N-DUP", "N-REORD", "N-RACE", "N-STALE", "missing-proposal",
            ]);
            setw(cfg, "corrupt", 30);
            setw(cfg, "byz", 8);
            setw(cfg, "forge", 6);
            cfg.faults.push("B-FORGE".into());
            cfg.faults.push("B-MOD".into());
            setw(cfg, "stale_commit", 6);
            setw(cfg, "send_app", 14);
            setw(cfg, "propose", 10);
            setw(cfg, "nm_propose", 3);
            setw(cfg, "crash", 0);
            cfg.storage = *r.pick(&[StorageKind::Mem, StorageKind::Mem, StorageKind::Sql]);
            cfg.n_parties = cfg.n_parties.min(6);
            if !cfg.encrypt_handshake && r.chance(1, 4) {
                cfg.scenario = "two-groups".into();
                cfg.knobs.push(("groups".into(), 2));
                cfg.faults.push("N-XGROUP".into());
                setw(cfg, "xgroup", 10);
                setw(cfg, "nm_propose", 8);
            }
            if r.chance(1, 3) {
                // provider errors surfaced from identity validation: one sampled call index per operation
                cfg.scenario = "identity-faults".into();
                cfg.oracles.push("identity-faults".into());
                cfg.faults.push("A-ID-ERR".into());
                cfg.knobs.push(("sample-faults".into(), 6));
            }
            if cfg.scenario != "identity-faults" && cfg.scenario != "two-groups" && r.chance(1, 3) {
                // one sampled call of the crypto provider fails per operation (an HSM that is away, a key the provider
                // refuses): the operation fails and nothing has changed, or the error is absorbed where that is legitimate
                cfg.scenario = "crypto-faults".into();
                cfg.oracles.push("crypto-faults".into());
                cfg.faults.push("C-ERR".into());
                cfg.knobs.push(("sample-faults".into(), *r.pick(&[8u64, 40, 150, 400])));
            }
            if r.chance(1, 2) {
                cfg.knobs.push(("psk".into(), 1));
            }
        }
        "C02" => {
            cfg.oracles = sv(&["agreement", "recipients", "removed-cannot-follow", "record-crypto", "path-required", "kdf-model"]);
            cfg.faults = sv(&["N-REORD", "N-RACE", "N-STALE", "N-DUP"]);
            setw(cfg, "commit", 16);
            setw(cfg, "propose", 10);
            setw(cfg, "send_app", 10);
            setw(cfg, "ext_commit", 4);
        }
        "C08" => {
            cfg.oracles = sv(&["agreement", "tree-valid"]);
            cfg.faults = sv(&["N-REORD", "N-RACE", "P-CRASH"]);
            cfg.knobs.push(("observe-every".into(), 3));
            setw(cfg, "commit", 16);
            setw(cfg, "propose", 10);
            setw(cfg, "send_app", 3);
            setw(cfg, "crash", 1);
            setw(cfg, "reload", 8);
            setw(cfg, "write", 8);
            if r.chance(1, 3) {
                cfg.scenario = "grow-shrink-regrow".into();
                cfg.n_parties = r.range(9, 20) as usize;
                cfg.steps += 50;
            }
        }
        "C09" => {
            cfg.oracles = sv(&["agreement", "private-keys"]);
            cfg.faults = sv(&["N-REORD", "N-RACE", "P-CRASH"]);
            setw(cfg, "commit", 16);
            setw(cfg, "propose", 12);
            setw(cfg, "send_app", 3);
            setw(cfg, "crash", 1);
            setw(cfg, "reload", 8);
            setw(cfg, "write", 8);
            setw(cfg, "ext_commit", 4);
            if r.chance(1, 3) {
                // a storage call of the operation fails: the keys a member holds afterwards still match its tree
                cfg.scenario = "storage-faults".into();
                cfg.oracles.push("storage-faults".into());
                cfg.faults.push("S-ERR".into());
                cfg.knobs.push(("no-write-faults".into(), 1));
                cfg.knobs.push(("sample-faults".into(), 4));
            }
        }
        "C13" => {
            cfg.oracles = sv(&["agreement", "kdf-model", "record-crypto"]);
            cfg.faults = sv(&["N-REORD", "N-RACE"]);
            cfg.knobs.push(("psk".into(), 1));
            cfg.knobs.push(("psk-mixed".into(), 1));
            setw(cfg, "write", 10);
            setw(cfg, "commit", 16);
            setw(cfg, "propose", 10);
            setw(cfg, "send_app", 12);
            setw(cfg, "ext_commit", 2);
            setw(cfg, "crash", 0);
        }
        "C05" => {
            cfg.oracles = sv(&["agreement", "nonce-unique", "record-crypto", "state-unchanged", "kdf-model"]);
            cfg.faults = sv(&["N-DUP", "N-REORD", "N-DROP", "N-GAP", "P-CRASH", "crash-unwritten-sends"]);
            cfg.encrypt_handshake = r.chance(2, 3);
            cfg.n_parties = cfg.n_parties.clamp(2, 6);
            setw(cfg, "send_app", 40);
            setw(cfg, "deliver", 40);
            setw(cfg, "propose", 8);
            setw(cfg, "commit", 6);
            setw(cfg, "write", 8);
            setw(cfg, "crash", 2);
            setw(cfg, "reload", 10);
            setw(cfg, "burst", if r.chance(1, 3) { 3 } else { 0 });
            setw(cfg, "late_seq", 4);
            cfg.knobs.push(("dup-heavy".into(), 1));
            if r.chance(1, 5) {
                // one sampled call of the crypto provider fails per operation: a send or a receive that fails for that
                // reason leaves the ratchets where they were
                cfg.scenario = "crypto-faults".into();
                cfg.oracles.push("crypto-faults".into());
                cfg.faults.push("C-ERR".into());
                cfg.knobs.push(("sample-faults".into(), *r.pick(&[6u64, 20, 60])));
                setw(cfg, "burst", 0);
            } else if r.chance(1, 4) {
                // many epochs with messages that arrive one or more epochs late (and again)
                cfg.scenario = "late-epochs".into();
                cfg.oracles.push("retention".into());
                cfg.retention = *r.pick(&[3u64, 5]);
                setw(cfg, "commit", 18);
                setw(cfg, "deliver", 10);
                setw(cfg, "write", 14);
                setw(cfg, "late_seq", 10);
                setw(cfg, "burst", 0);
            }
        }
        "C18" => {
            cfg.oracles = sv(&["agreement", "retention", "state-unchanged", "kdf-model", "record-crypto"]);
            cfg.faults = sv(&["A-PSK-MISSING", "A-PSK-DIFF", "N-REORD", "N-RACE", "B-FORGE"]);
            cfg.knobs.push(("psk".into(), 2));
            cfg.knobs.push(("psk-templates".into(), 1));
            cfg.oracles.push("proposal-agreement".into());
            cfg.n_parties = cfg.n_parties.clamp(3, 7);
            setw(cfg, "forge", 5);
            setw(cfg, "commit", 18);
            setw(cfg, "propose", 12);
            setw(cfg, "write", 10);
            setw(cfg, "ext_commit", 3);
            setw(cfg, "crash", 0);
        }
        "C19" => {
            cfg.oracles = sv(&["agreement", "retention", "state-unchanged"]);
            cfg.faults = sv(&["N-DELAY", "N-REORD", "N-DUP", "P-CRASH"]);
            cfg.storage = *r.pick(&[StorageKind::Mem, StorageKind::Sql, StorageKind::Mirror, StorageKind::Mirror]);
            cfg.n_parties = cfg.n_parties.clamp(3, 7);
            setw(cfg, "send_app", 30);
            setw(cfg, "deliver", 6);
            setw(cfg, "commit", 14);
            setw(cfg, "propose", 4);
            setw(cfg, "write", *r.pick(&[0u32, 2, 8, 20]));
            setw(cfg, "late_seq", 6);
            if r.chance(1, 3) {
                // a member that comes back on a new device keeps its signature key
                cfg.knobs.push(("same-signer-rejoin".into(), 1));
            }
            if r.chance(1, 3) {
                cfg.scenario = "two-groups".into();
                cfg.knobs.push(("groups".into(), 2));
            }
            setw(cfg, "crash", 1);
            setw(cfg, "reload", 10);
        }
        "C07" => {
            cfg.oracles = sv(&["agreement", "joiner", "tree-valid"]);
            cfg.faults = sv(&["J-NOT-ADDRESSED", "J-WRONG-TREE", "J-STALE-GROUP-INFO", "N-RACE", "N-REORD", "S-KP-DELETE-ERR"]);
            cfg.knobs.push(("observe-every".into(), 6));
            cfg.knobs.push(("psk".into(), 1));
            setw(cfg, "commit", 18);
            setw(cfg, "propose", 10);
            setw(cfg, "join", 10);
            setw(cfg, "bad_join", 8);
            setw(cfg, "ext_commit", 5);
            setw(cfg, "write", 10);
            setw(cfg, "crash", 0);
            if r.chance(1, 4) {
                cfg.scenario = "rejoin-same-storage".into();
                cfg.same_storage_rejoin = true;
            }
        }
        "C16" => {
            cfg.oracles = sv(&["agreement", "observer"]);
            cfg.faults = sv(&["N-FLIP", "N-TRUNC", "N-RACE", "N-REORD"]);
            cfg.encrypt_handshake = false;
            cfg.knobs.push(("ext-sender".into(), 1));
            cfg.knobs.push(("no-gce".into(), 1));
            setw(cfg, "observe", 10);
            setw(cfg, "obs_feed", 40);
            setw(cfg, "obs_corrupt", 12);
            setw(cfg, "obs_snapshot", 4);
            setw(cfg, "obs_propose", 6);
            setw(cfg, "obs_stale_ref", 6);
            setw(cfg, "forge", 8);
            cfg.faults.push("B-FORGE".into());
            setw(cfg, "nm_propose", 3);
            setw(cfg, "commit", 14);
            setw(cfg, "propose", 8);
            setw(cfg, "send_app", 10);
            setw(cfg, "crash", 0);
        }
        "C17" => {
            cfg.oracles = sv(&["agreement", "reinit"]);
            cfg.faults = sv(&["N-REORD", "N-RACE", "B-SUCCESSOR-EXT"]);
            cfg.knobs.push(("reinit".into(), 1));
            cfg.n_parties = cfg.n_parties.clamp(3, 8);
            setw(cfg, "commit", 16);
            setw(cfg, "propose", 8);
            setw(cfg, "branch", 5);
            setw(cfg, "ext_commit", 2);
            setw(cfg, "crash", 0);
            setw(cfg, "send_app", 4);
        }
        "C14" => {
            use crate::crypto::ProviderKind::*;
            cfg.oracles = sv(&["agreement", "cross-check", "tree-valid"]);
            cfg.faults = sv(&["N-FLIP", "N-TRUNC", "N-REORD", "N-RACE", "N-DUP"]);
            cfg.knobs.push(("observe-every".into(), 8));
            cfg.knobs.push(("psk".into(), 1));
            // every party draws its provider; the cross-check seam evaluates every deterministic primitive on a
            // second provider as well
            let kinds = [RustCrypto, OpenSsl, AwsLc, Det];
            let n = cfg.n_parties.max(2);
            cfg.providers = (0..n).map(|_| *r.pick(&kinds)).collect();
            if r.chance(2, 3) {
                cfg.cross = Some(*r.pick(&[RustCrypto, OpenSsl, AwsLc]));
            }
            // suites every shipped provider supports
            cfg.suite = *r.pick(&[1u16, 1, 2, 3, 7]);
            cfg.n_parties = cfg.n_parties.min(6);
            cfg.steps = cfg.steps.min(50);
            setw(cfg, "x509_case", 12);
            setw(cfg, "corrupt", 10);
            setw(cfg, "send_app", 12);
            setw(cfg, "commit", 14);
            setw(cfg, "crash", 0);
        }
        "C12" => {
            cfg.oracles = sv(&["agreement", "codec"]);
            cfg.faults = sv(&["C-FLIP", "C-TRUNC", "C-LEN-HUGE", "C-LEN-NONMINIMAL", "C-DISCRIMINANT", "C-TAIL", "C-RANDOM", "S-FLIP", "N-RACE"]);
            cfg.knobs.push(("codec-mutations".into(), 6));
            cfg.knobs.push(("boundary-sizes".into(), 1));
            if r.chance(1, 3) {
                // re-initialisation commits and what is reported about them
                cfg.knobs.push(("reinit".into(), 1));
            }
            cfg.knobs.push(("psk".into(), 1));
            cfg.knobs.push(("detached".into(), 5));
            cfg.knobs.push(("ext-sender".into(), 1));
            cfg.knobs.push(("no-gce".into(), 1));
            cfg.storage = *r.pick(&[StorageKind::Mem, StorageKind::Sql]);
            setw(cfg, "sflip", 5);
            setw(cfg, "write", 10);
            setw(cfg, "observe", 2);
            setw(cfg, "obs_feed", 8);
            setw(cfg, "obs_snapshot", 3);
            setw(cfg, "apply_detached", 6);
            setw(cfg, "crash", 0);
            if r.chance(1, 12) {
                // trees and messages beyond the 16 KiB varint boundary
                cfg.scenario = "large-values".into();
                cfg.n_parties = r.range(60, 80) as usize;
                cfg.steps = 140;
                cfg.knobs.push(("grow".into(), 1));
                cfg.knobs.retain(|k| k.0 != "codec-mutations");
                cfg.knobs.push(("codec-mutations".into(), 2));
                setw(cfg, "commit", 40);
                setw(cfg, "send_app", 2);
                setw(cfg, "propose", 2);
                setw(cfg, "observe", 0);
            }
        }
        "C10" => {
            cfg.oracles = sv(&["agreement", "proposal-agreement", "state-unchanged", "path-required"]);
            cfg.faults = sv(&["B-FORGE", "N-DROP", "N-REORD", "N-RACE", "A-ID-REJECT", "missing-proposal"]);
            cfg.encrypt_handshake = false;
            cfg.knobs.push(("psk".into(), 1));
            cfg.knobs.push(("banned".into(), 1));
            cfg.knobs.push(("templates".into(), 1));
            cfg.n_parties = cfg.n_parties.clamp(4, 8);
            if r.chance(1, 2) {
                // the devices of the last party but one do not support the custom group-context extension type
                cfg.knobs.push(("legacy".into(), 1));
            }
            setw(cfg, "commit", 18);
            setw(cfg, "propose", 18);
            setw(cfg, "forge", 10);
            setw(cfg, "nm_propose", 4);
            setw(cfg, "update_clash", 3);
            if r.chance(1, 2) {
                // an external sender is listed in the group context: it may propose, but not every proposal type
                cfg.knobs.push(("ext-sender".into(), 1));
                setw(cfg, "forge_ext", 3);
            }
            setw(cfg, "deliver", 14);
            setw(cfg, "crash", 0);
        }
        "C06" => {
            cfg.oracles = sv(&["agreement", "restore"]);
            cfg.faults = sv(&["P-CRASH", "N-REORD", "N-DUP", "N-RACE", "N-STALE", "crash-with-pending"]);
            cfg.storage = *r.pick(&[StorageKind::Mem, StorageKind::Sql, StorageKind::Mirror, StorageKind::Mirror]);
            cfg.n_parties = cfg.n_parties.min(7);
            cfg.knobs.push(("twins".into(), r.range(1, 3)));
            setw(cfg, "burst", if r.chance(1, 4) { 3 } else { 0 });
            if r.chance(1, 4) {
                // a re-initialised group is stored and restored like any other
                cfg.knobs.push(("reinit".into(), 1));
            }
            if r.chance(1, 3) {
                cfg.scenario = "two-groups".into();
                cfg.knobs.push(("groups".into(), 2));
                cfg.oracles.push("retention".into());
                setw(cfg, "deliver", 6);
                setw(cfg, "send_app", 20);
            }
            setw(cfg, "write", 16);
            setw(cfg, "crash", 3);
            setw(cfg, "reload", 12);
            setw(cfg, "propose", 10);
            setw(cfg, "send_app", 12);
            setw(cfg, "commit", 12);
            setw(cfg, "clear_pending", 2);
        }
        "C11" => {
            cfg.oracles = sv(&["agreement", "pending-model", "state-unchanged"]);
            cfg.faults = sv(&["N-RACE", "N-STALE", "N-REORD", "N-DUP", "crash-with-pending"]);
            cfg.n_parties = cfg.n_parties.clamp(3, 7);
            setw(cfg, "commit", 24);
            setw(cfg, "ds_pick", 6);
            setw(cfg, "clear_pending", 5);
            setw(cfg, "stale_commit", 8);
            setw(cfg, "apply_detached", 10);
            setw(cfg, "write", 8);
            setw(cfg, "crash", 1);
            setw(cfg, "reload", 10);
            cfg.knobs.push(("detached".into(), 3));
            if r.chance(1, 5) {
                // a commit (or proposal) build that fails because the crypto provider returns an error leaves no
                // pending commit and nothing else behind
                cfg.scenario = "crypto-faults".into();
                cfg.oracles.push("crypto-faults".into());
                cfg.faults.push("C-ERR".into());
                cfg.knobs.push(("sample-faults".into(), *r.pick(&[40u64, 150, 400])));
            }
        }
        "C15" => {
            cfg.oracles = sv(&["agreement", "storage-faults", "state-unchanged"]);
            cfg.faults = sv(&["S-ERR", "N-REORD", "N-RACE", "N-STALE"]);
            cfg.storage = *r.pick(&[StorageKind::Mem, StorageKind::Sql, StorageKind::Mirror]);
            cfg.n_parties = cfg.n_parties.min(5);
            cfg.steps = cfg.steps.min(40);
            cfg.knobs.push(("psk".into(), 1));
            cfg.knobs.push(("psk-by-ref".into(), 1));
            setw(cfg, "write", 14);
            setw(cfg, "send_app", 12);
            setw(cfg, "crash", 2);
            setw(cfg, "reload", 10);
            setw(cfg, "stale_commit", 1);
        }
        _ => {}
    }
    // rarely used public API, drawn from a derived generator (the main stream of the run is left as it was):
    // the ratchet tree kept by the application (write_to_storage_without_ratchet_tree + load_group_with_ratchet_tree),
    // Group::clear_proposal_cache, member-to-member HPKE (safe_encrypt_with_context_to_recipient and its counterpart)
    let mut r2 = r.derive(0x7ee0_0b);
    let prop = cfg.property.clone();
    let prop = prop.as_str();
    if matches!(prop, "C01" | "C06" | "C07" | "C08" | "C09" | "C19") && cfg.knob("no-write-faults").is_none() && r2.chance(1, 4) {
        cfg.knobs.push(("tree-oob".into(), 1));
    }
    if matches!(prop, "C04" | "C06" | "C10" | "C11") && r2.chance(1, 3) {
        setw(cfg, "clear_cache", 3);
    }
    if matches!(prop, "C01" | "C02" | "C09") && r2.chance(1, 3) {
        setw(cfg, "member_hpke", 4);
    }
    if matches!(prop, "C06" | "C15" | "C19") && cfg.storage == StorageKind::Sql {
        // statements of the SQLite provider's write fail one at a time
        cfg.faults.push("S-SQL-INNER".into());
    }
    if prop == "C03" && r2.chance(1, 2) {
        // what a joiner is handed (Welcome, out-of-band tree, GroupInfo) is traffic too: the mismatched and modified
        // joins of C07, among them a tree with blank nodes appended
        setw(cfg, "bad_join", 6);
        for f in ["J-NOT-ADDRESSED", "J-WRONG-TREE", "J-STALE-GROUP-INFO", "J-FLIP-WELCOME", "J-FLIP-TREE", "J-FLIP-GROUP-INFO"] {
            cfg.faults.push(f.into());
        }
    }
    if prop == "C18" && r2.chance(1, 3) {
        // PSK values are replaced under the same id while the group runs
        setw(cfg, "psk_rotate", 3);
    }
    if prop == "C14" && r2.chance(1, 2) {
        // hand-made signature verification inputs (points of small order, non-canonical scalars)
        setw(cfg, "crafted_verify", 8);
        cfg.faults.push("K-SMALL-ORDER".into());
    }
    if prop == "C12" && r2.chance(1, 2) {
        // custom proposals whose type sits on the boundary of the RFC-defined range
        setw(cfg, "custom_type", 6);
    }
    if matches!(prop, "C10" | "C16" | "C03") && !cfg.encrypt_handshake && r2.chance(1, 3) {
        // a Byzantine member's commit that references cached Add proposals which break a rule together
        setw(cfg, "forge_ref", 5);
        cfg.faults.push("B-FORGE-REF".into());
    }
}

pub fn extra_kinds(w: &World, kinds: &mut Vec<(&'static str, u32)>) {
    let g = w.ext.cur_g;
    if w.cfg.weight("corrupt") > 0 && !w.live_members(g).is_empty() && !w.msgs.is_empty() {
        kinds.push(("corrupt", w.cfg.weight("corrupt")));
    }
    if w.cfg.weight("byz") > 0 && w.live_members(g).len() >= 2 {
        kinds.push(("byz", w.cfg.weight("byz")));
    }
    if w.cfg.weight("x509_case") > 0 {
        kinds.push(("x509_case", w.cfg.weight("x509_case")));
    }
    if w.cfg.weight("nm_propose") > 0 && !w.live_members(g).is_empty() {
        kinds.push(("nm_propose", w.cfg.weight("nm_propose")));
    }
    if w.cfg.weight("late_seq") > 0 && !w.live_members(g).is_empty() {
        kinds.push(("late_seq", w.cfg.weight("late_seq")));
    }
    if w.cfg.weight("xgroup") > 0 && w.groups.len() >= 2 {
        kinds.push(("xgroup", w.cfg.weight("xgroup")));
    }
    if w.cfg.weight("forge_ref") > 0 && w.live_members(g).len() >= 2 {
        kinds.push(("forge_ref", w.cfg.weight("forge_ref")));
    }
    if w.cfg.weight("custom_type") > 0 && w.live_members(g).len() >= 2 {
        kinds.push(("custom_type", w.cfg.weight("custom_type")));
    }
    if w.cfg.weight("psk_rotate") > 0 {
        kinds.push(("psk_rotate", w.cfg.weight("psk_rotate")));
    }
    if w.cfg.weight("crafted_verify") > 0 && matches!(w.cfg.suite, 1 | 3) {
        kinds.push(("crafted_verify", w.cfg.weight("crafted_verify")));
    }
    if w.cfg.weight("clear_cache") > 0 && w.live_members(g).iter().any(|p| !w.parties[*p].mems[g].cached.is_empty()) {
        kinds.push(("clear_cache", w.cfg.weight("clear_cache")));
    }
    if w.cfg.weight("member_hpke") > 0 && w.live_members(g).len() >= 2 {
        kinds.push(("member_hpke", w.cfg.weight("member_hpke")));
    }
    if w.cfg.weight("forge_ext") > 0 && g == 0 && w.ext.ext_sender.is_some() && !w.live_members(g).is_empty() {
        kinds.push(("forge_ext", w.cfg.weight("forge_ext")));
    }
    if w.cfg.weight("update_clash") > 0 && g == 0 && w.live_members(g).len() >= 3 {
        kinds.push(("update_clash", w.cfg.weight("update_clash")));
    }
    if w.cfg.weight("forge") > 0 && w.live_members(g).len() >= 2 {
        kinds.push(("forge", w.cfg.weight("forge")));
    }
    if w.cfg.weight("sflip") > 0 && !w.live_members(g).is_empty() {
        kinds.push(("sflip", w.cfg.weight("sflip")));
    }
    if w.cfg.weight("branch") > 0 && w.live_members(g).len() >= 2 && w.groups[g].reinit_at.is_none() {
        kinds.push(("branch", w.cfg.weight("branch")));
    }
    if w.cfg.weight("observe") > 0 {
        let n = w.ext.observers.len();
        if n < 2 {
            kinds.push(("observe", w.cfg.weight("observe")));
        }
        if n > 0 {
            kinds.push(("obs_feed", w.cfg.weight("obs_feed")));
            kinds.push(("obs_corrupt", w.cfg.weight("obs_corrupt")));
            kinds.push(("obs_snapshot", w.cfg.weight("obs_snapshot")));
            kinds.push(("obs_propose", w.cfg.weight("obs_propose")));
            kinds.push(("obs_stale_ref", w.cfg.weight("obs_stale_ref")));
        }
    }
    if w.cfg.weight("bad_join") > 0 && !w.groups[g].log.is_empty() {
        kinds.push(("bad_join", w.cfg.weight("bad_join")));
    }
    if w.cfg.weight("burst") > 0 && !w.live_members(g).is_empty() && w.ext.bursts < 2 {
        kinds.push(("burst", w.cfg.weight("burst")));
    }
    if w.cfg.weight("apply_detached") > 0
        && w
            .live_members(g)
            .iter()
            .any(|p| !w.parties[*p].mems[g].detached.is_empty())
    {
        kinds.push(("apply_detached", w.cfg.weight("apply_detached")));
    }
}

fn random_mutation(w: &mut World, target: u64) -> Mutation {
    let len = w.msgs[&target].bytes.len().max(1) as u64;
    let kind = w.msgs[&target].kind.clone();
    let mut choices = vec![];
    if w.cfg.fault("N-FLIP") {
        choices.extend_from_slice(&[0, 0, 0, 0]);
    }
    if w.cfg.fault("N-TRUNC") {
        choices.push(1);
    }
    if w.cfg.fault("N-SPLICE") {
        choices.push(2);
    }
    if choices.is_empty() {
        choices.push(0);
    }
    let c = *w.prng.pick(&choices);
    match c {
        0 => {
            // bias towards the header (first 64 bytes) and the tail (tags, signatures)
            let pos = match w.prng.below(4) {
                0 => w.prng.below(len.min(64)),
                1 => len - 1 - w.prng.below(len.min(80)),
                _ => w.prng.below(len),
            };
            Mutation::Flip {
                pos: pos as u32,
                bit: w.prng.below(8) as u8,
            }
        }
        1 => Mutation::Trunc {
            len: w.prng.below(len) as u32,
        },
        _ => {
            let same: Vec<u64> = w
                .msgs
                .iter()
                .filter(|(id, m)| **id != target && m.kind == kind)
                .map(|(id, _)| *id)
                .collect();
            if same.is_empty() {
                Mutation::Flip {
                    pos: w.prng.below(len) as u32,
                    bit: 0,
                }
            } else {
                let other = *w.prng.pick(&same);
                Mutation::Splice {
                    other,
                    at: w.prng.below(len) as u32,
                }
            }
        }
    }
}

pub fn extra_action(w: &mut World, kind: &str) -> Option<Action> {
    let g = w.ext.cur_g;
    match kind {
        "corrupt" => {
            let live = w.live_members(g);
            let p = *w.prng.pick(&live);
            let epoch = w.epoch_of(p, g)?;
            // prefer messages whose genuine copy is still to come for p
            let mut pool: Vec<u64> = vec![];
            if w.prng.chance(3, 5) {
                pool.extend(w.parties[p].mems[g].inbox.iter().copied());
                if let Some(c) = w.groups[g].log.get(epoch as usize) {
                    pool.push(*c);
                }
                if let Some(c) = w.groups[g].candidates.get(&epoch) {
                    pool.extend(c.iter().copied());
                }
            }
            if pool.is_empty() {
                let all: Vec<u64> = w.msgs.keys().copied().collect();
                let n = all.len();
                let lo = n.saturating_sub(12);
                pool.extend_from_slice(&all[lo..]);
            }
            let target = *w.prng.pick(&pool);
            let m = random_mutation(w, target);
            Some(Action::Corrupt {
                p,
                g,
                msg: target,
                m,
            })
        }
        "nm_propose" => Some(Action::Special {
            kind: "nm_propose".into(),
            a: w.prng.usize_below(w.parties.len()) as u64,
            b: g as u64,
            c: 0,
        }),
        "forge_ref" => {
            let live = w.live_members(g);
            Some(Action::Special {
                kind: "forge_ref".into(),
                a: *w.prng.pick(&live) as u64,
                b: w.prng.below(64),
                c: g as u64,
            })
        }
        "psk_rotate" => Some(Action::Special {
            kind: "psk_rotate".into(),
            a: w.prng.below(4),
            b: w.prng.below(1 << 16),
            c: 0,
        }),
        "crafted_verify" => Some(Action::Special {
            kind: "crafted_verify".into(),
            a: w.prng.usize_below(w.parties.len()) as u64,
            b: w.prng.below(300),
            c: 0,
        }),
        "clear_cache" | "member_hpke" | "custom_type" => {
            let live = w.live_members(g);
            Some(Action::Special {
                kind: kind.into(),
                a: *w.prng.pick(&live) as u64,
                b: if kind == "clear_cache" { g as u64 } else { w.prng.below(1 << 16) },
                c: g as u64,
            })
        }
        "late_seq" => {
            let live = w.live_members(g);
            Some(Action::Special {
                kind: "late_seq".into(),
                a: *w.prng.pick(&live) as u64,
                b: g as u64,
                c: 0,
            })
        }
        "xgroup" => Some(Action::Special {
            kind: "xgroup".into(),
            a: w.prng.usize_below(w.parties.len()) as u64,
            b: w.prng.below(64),
            c: 0,
        }),
        "x509_case" => Some(Action::Special {
            kind: "x509_case".into(),
            a: w.prng.next_u64() >> 16,
            b: w.prng.below(64),
            c: w.prng.below(9),
        }),
        "forge_ext" => Some(Action::Special {
            kind: "forge_ext".into(),
            a: w.prng.below(64),
            b: 0,
            c: 0,
        }),
        "update_clash" => {
            let live = w.live_members(g);
            let p = *w.prng.pick(&live);
            Some(Action::Special {
                kind: "update_clash".into(),
                a: p as u64,
                b: w.prng.next_u64() >> 8,
                c: 0,
            })
        }
        "forge" => {
            let live = w.live_members(g);
            let p = *w.prng.pick(&live);
            Some(Action::Special {
                kind: "forge".into(),
                a: p as u64,
                b: if w.cfg.knob("templates").is_some() { w.prng.below(17) } else { w.prng.below(13) },
                c: w.prng.below(8),
            })
        }
        "sflip" => {
            let live = w.live_members(g);
            let p = *w.prng.pick(&live);
            Some(Action::Special {
                kind: "sflip".into(),
                a: p as u64,
                b: w.prng.next_u64(),
                c: g as u64,
            })
        }
        "branch" => {
            let live = w.live_members(g);
            let p = *w.prng.pick(&live);
            Some(Action::Special {
                kind: "branch".into(),
                a: p as u64,
                b: w.prng.next_u64() >> 4,
                c: w.prng.below(3),
            })
        }
        "observe" => Some(Action::Special {
            kind: "observe".into(),
            a: g as u64,
            b: w.prng.below(8),
            c: 0,
        }),
        "obs_feed" => {
            let k = w.prng.usize_below(w.ext.observers.len().max(1));
            Some(Action::Special {
                kind: "obs_feed".into(),
                a: k as u64,
                b: w.prng.below(64),
                c: 0,
            })
        }
        "obs_stale_ref" => Some(Action::Special {
            kind: "obs_stale_ref".into(),
            a: w.prng.usize_below(w.ext.observers.len().max(1)) as u64,
            b: w.prng.below(64),
            c: 0,
        }),
        "obs_snapshot" => Some(Action::Special {
            kind: "obs_snapshot".into(),
            a: w.prng.usize_below(w.ext.observers.len().max(1)) as u64,
            b: 0,
            c: 0,
        }),
        "obs_propose" => Some(Action::Special {
            kind: "obs_propose".into(),
            a: w.prng.usize_below(w.ext.observers.len().max(1)) as u64,
            b: w.prng.below(2),
            c: w.prng.usize_below(w.parties.len()) as u64,
        }),
        "obs_corrupt" => {
            let k = w.prng.usize_below(w.ext.observers.len().max(1));
            let ids: Vec<u64> = w.msgs.iter().filter(|(_, m)| !m.private && m.kind != MsgKind::App).map(|(i, _)| *i).collect();
            if ids.is_empty() {
                return None;
            }
            let lo = ids.len().saturating_sub(6);
            let id = ids[lo + w.prng.usize_below(ids.len() - lo)];
            let len = w.msgs[&id].bytes.len().max(1) as u64;
            let c = if w.prng.chance(3, 4) {
                (w.prng.below(len) << 4) | (w.prng.below(8) << 1)
            } else {
                (w.prng.below(len) << 4) | 1
            };
            Some(Action::Special {
                kind: "obs_corrupt".into(),
                a: k as u64,
                b: id,
                c,
            })
        }
        "bad_join" => {
            let variant = w.prng.below(6);
            let n = w.parties.len();
            let q = if matches!(variant, 1 | 3 | 4) {
                let inv: Vec<usize> = (0..n).filter(|p| w.mem_ref(*p, g).map(|m| m.welcome.is_some()).unwrap_or(false)).collect();
                if inv.is_empty() { w.prng.usize_below(n) } else { *w.prng.pick(&inv) }
            } else {
                w.prng.usize_below(n)
            };
            Some(Action::Special {
                kind: "bad_join".into(),
                a: variant,
                b: q as u64,
                c: g as u64,
            })
        }
        "burst" => {
            let live = w.live_members(g);
            let p = *w.prng.pick(&live);
            w.ext.bursts += 1;
            Some(Action::Special {
                kind: "burst".into(),
                a: p as u64,
                b: *w.prng.pick(&[1u64, 5, 40, 1023, 1024, 1025, 1030]),
                c: if w.prng.chance(1, 2) { 1 + w.prng.below(8) } else { 0 },
            })
        }
        "apply_detached" => {
            let holders: Vec<usize> = w
                .live_members(g)
                .into_iter()
                .filter(|p| !w.parties[*p].mems[g].detached.is_empty())
                .collect();
            let p = *w.prng.pick(&holders);
            Some(Action::Special {
                kind: "apply_detached".into(),
                a: p as u64,
                b: w.prng.below(8),
                c: g as u64,
            })
        }
        "byz" => {
            let live = w.live_members(g);
            let p = *w.prng.pick(&live);
            // 22 (leaf capabilities without the group's cipher suite) is not used for verdicts: RFC 9420 does
            // not clearly require receivers to reject it and mls-rs accepts it
            let codes: [u64; 20] = [1, 2, 3, 4, 5, 6, 7, 8, 9, 20, 21, 23, 23, 30, 31, 1, 32, 32, 33, 33];
            Some(Action::Special {
                kind: "byz".into(),
                a: p as u64,
                b: *w.prng.pick(&codes),
                c: w.prng.below(8),
            })
        }
        _ => None,
    }
}

pub fn adjust_commit(w: &mut World, _p: usize, _g: usize, spec: &mut CommitSpec) {
    if w.cfg.knob("no-gce").is_some() {
        spec.gce = None;
    }
    if w.cfg.knob("banned").is_some() {
        let banned = w.parties.len() - 1;
        spec.adds.retain(|q| *q != banned);
    }
    if w.cfg.knob("templates").is_some() && w.prng.chance(1, 5) {
        // (two by-value PSK proposals for the same external id get different nonces, hence different
        // PreSharedKeyIDs: that is valid, so it is not a template; the forger covers the identical-id case)
        let t = *w.prng.pick(&[1u8, 2, 4, 5, 8, 9, 10, 11, 12, 12, 13]);
        let q = if t == 8 { w.parties.len() - 1 } else { w.prng.usize_below(w.parties.len()) };
        spec.templates.push((t, q));
    }
    if w.cfg.knob("psk-templates").is_some() && w.prng.chance(1, 8) {
        spec.templates.push((14, w.prng.usize_below(3)));
    }
    if w.cfg.knob("grow").is_some() {
        let n = w.parties.len();
        let latest = w.groups[_g].log.len() as u64;
        let members: Vec<usize> = w.groups[_g].members.get(&latest).map(|m| m.keys().copied().collect()).unwrap_or_default();
        let outs: Vec<usize> = (0..n)
            .filter(|q| !members.contains(q) && matches!(w.mem_ref(*q, _g).map(|m| m.status.clone()).unwrap_or(Status::Never), Status::Never))
            .take(6)
            .collect();
        spec.adds = outs;
        spec.removes.clear();
    }
    if w.cfg.knob("reinit").is_some() {
        let latest = w.groups[_g].log.len();
        let roster = w.groups[_g].members.get(&(latest as u64)).map(|m| m.len()).unwrap_or(0);
        if latest >= 3 && roster >= 2 && w.parties[_p].mems[_g].cached.is_empty() && w.prng.chance(1, 5) {
            // a re-init proposal has to be alone in its commit
            let suite = if w.cfg.suite == 1 && w.prng.chance(1, 3) { 3 } else { w.cfg.suite };
            *spec = CommitSpec {
                reinit: Some(suite),
                ratchet_tree_ext: true,
                single_welcome: true,
                ..Default::default()
            };
        }
    }
    if let Some(d) = w.cfg.knob("detached") {
        if w.prng.chance(1, d) {
            spec.detached = true;
        }
    }
    if w.cfg.knob("psk") == Some(2) && w.prng.chance(1, 2) {
        let n = w.prng.range(0, 3);
        for _ in 0..n {
            let id = w.prng.below(4) as u8;
            if !spec.ext_psks.contains(&id) {
                spec.ext_psks.push(id);
            }
        }
        if w.prng.chance(1, 2) {
            let back = w.prng.below(w.cfg.retention + 3) as u8;
            if !spec.res_psks.contains(&back) {
                spec.res_psks.push(back);
            }
        }
    }
    if w.cfg.knob("psk-mixed").is_some() && w.prng.chance(1, 3) {
        // a resumption PSK of a recent epoch next to the external ones (every member still retains it)
        let latest = w.groups[_g].log.len() as u64;
        if latest >= 1 {
            // mostly the epoch just left, sometimes an older one (which a member may hold in memory, in storage, or
            // no longer at all)
            spec.res_psks.push(*w.prng.pick(&[0u8, 0, 1, 2, 3]));
            spec.res_first = w.prng.chance(1, 2);
        }
    }
    if w.cfg.knob("psk") == Some(1) && w.prng.chance(1, 4) {
        let n = w.prng.range(1, 2);
        for _ in 0..n {
            let id = w.prng.below(3) as u8;
            if !spec.ext_psks.contains(&id) {
                spec.ext_psks.push(id);
            }
        }
    }
}

pub fn prop_spec_override(
    w: &mut World,
    _p: usize,
    _g: usize,
    _opts: &mut Vec<u32>,
) -> Option<PropSpec> {
    if w.cfg.knob("no-gce").is_some() && _opts.len() > 3 {
        _opts[3] = 0;
    }
    if w.cfg.knob("templates").is_some() {
        // two changes to one leaf: a member that has already proposed an Update in this epoch proposes another one
        let epoch = w.groups[_g].log.len() as u64;
        let again = w.groups[_g].props.get(&epoch).map(|ps| {
            ps.iter().any(|i| w.msgs[i].sender == _p && matches!(w.msgs[i].pspec, Some(PropSpec::Update { .. })))
        });
        if again == Some(true) && w.prng.chance(1, 2) {
            return Some(PropSpec::Update { new_identity: false });
        }
        if w.prng.chance(1, 8) {
            return Some(PropSpec::Update { new_identity: false });
        }
    }
    if w.cfg.knob("templates").is_some() && w.prng.chance(1, 6) {
        let t = *w.prng.pick(&[8u8, 4, 10, 11, 12]);
        let q = if t == 8 { w.parties.len() - 1 } else { w.prng.usize_below(w.parties.len()) };
        return Some(PropSpec::Template { t, q });
    }
    if w.cfg.knob("psk-templates").is_some() && w.prng.chance(1, 10) {
        return Some(PropSpec::Template { t: 14, q: w.prng.usize_below(3) });
    }
    if w.cfg.knob("psk-by-ref").is_some() && w.prng.chance(1, 5) {
        // C15: external PSKs proposed by reference (every party holds the same values), so that the PSK store is
        // also consulted while proposals are filtered
        return Some(PropSpec::ExtPsk { id: w.prng.below(3) as u8 });
    }
    if w.cfg.knob("psk") == Some(2) && w.prng.chance(1, 3) {
        return Some(if w.prng.chance(1, 2) {
            PropSpec::ExtPsk {
                id: w.prng.below(4) as u8,
            }
        } else {
            PropSpec::ResPsk {
                back: w.prng.below(w.cfg.retention + 2) as u8,
            }
        });
    }
    None
}

/// run-level set-up after the world is created (who creates the group, PSK distribution, ...)
pub fn setup(w: &mut World) -> VResult<()> {
    if w.cfg.knob("psk") == Some(2) {
        // divergent PSK stores: per party and id the common value, another value, or nothing
        for id in 0..4u8 {
            let value = crate::prng::Prng::new(crate::prng::mix(&[w.seed, 0x95c, id as u64])).bytes(32);
            for p in 0..w.parties.len() {
                match w.prng.below(10) {
                    0 => {
                        w.stats.fault("A-PSK-MISSING");
                    }
                    1 => {
                        let other = w.prng.bytes(32);
                        w.parties[p].pskstore.put(&[b'k', id], &other);
                        w.stats.fault("A-PSK-DIFF");
                    }
                    _ => w.parties[p].pskstore.put(&[b'k', id], &value),
                }
            }
        }
    }
    if w.cfg.knob("psk") == Some(1) {
        // every party holds the same value for external PSK ids k0..k2
        for id in 0..3u8 {
            let value = crate::prng::Prng::new(crate::prng::mix(&[w.seed, 0x95c, id as u64])).bytes(32);
            for p in 0..w.parties.len() {
                w.parties[p].pskstore.put(&[b'k', id], &value);
            }
        }
    }
    if w.cfg.knob("banned").is_some() {
        // the application's identity provider (the same policy for everybody) rejects the last party's credential
        let banned = w.parties.len() - 1;
        let name = w.parties[banned].name.clone();
        for p in 0..w.parties.len() {
            w.parties[p].identity.ctl.lock().unwrap().reject.insert(name.clone());
        }
    }
    if w.cfg.knob("ext-sender").is_some() {
        use mls_rs::CipherSuiteProvider;
        let csp = w.idgen_suite();
        if let Ok((sk, pk)) = csp.signature_key_generate() {
            let sid = mls_rs::identity::SigningIdentity::new(
                mls_rs::identity::basic::BasicCredential::new(b"observer".to_vec()).into_credential(),
                pk,
            );
            w.ext.ext_sender = Some((sk, sid));
        }
        // one C16 world in three: the observer rotated its signature key and the group lists both entries, the old key
        // first (same credential); the observer signs with the new key and has to name the second entry
        if w.cfg.property == "C16" && crate::prng::mix(&[w.seed, 0x16e0]) % 3 == 0 && w.ext.ext_sender.is_some() {
            if let Ok((_sk0, pk0)) = csp.signature_key_generate() {
                w.ext.ext_sender_old = Some(mls_rs::identity::SigningIdentity::new(
                    mls_rs::identity::basic::BasicCredential::new(b"observer".to_vec()).into_credential(),
                    pk0,
                ));
                w.stats.probe("external-sender-listed-twice-after-key-rotation");
            }
        }
    }
    w.create_group(0)?;
    if w.cfg.knob("groups") == Some(2) && w.parties.len() >= 2 {
        // a second group among the same parties, kept in the same stores
        w.create_group(1)?;
        w.stats.probe("two-groups-in-one-world");
    }
    Ok(())
}

/// run-level checks at the end of a run (after the heal phase)
pub fn finish(w: &mut World) -> VResult<()> {
    crate::c17::finish_reinit(w)?;
    crate::treeor::legacy_snapshot_case(w)?;
    // bounded liveness: every live member sits in the latest epoch
    for g in 0..w.groups.len() {
        let latest = w.groups[g].log.len() as u64;
        if w.groups[g].reinit_at.is_some() {
            continue;
        }
        for p in w.live_members(g) {
            let e = w.epoch_of(p, g).unwrap_or(0);
            if e != latest {
                return Err(Violation::new(
                    &w.cfg.property,
                    "bounded-liveness",
                    "member-behind-after-heal".into(),
                    format!("after the heal phase P{p} is at epoch {e} of g{g}, the group is at {latest}"),
                ));
            }
        }
    }
    Ok(())
}
