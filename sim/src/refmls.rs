//! Reference model: an independent, small implementation of the RFC 9420 pieces the oracles need, written
//! from the RFC text on bare sha2 / hmac. It never calls mls-rs code for the formulas it checks.

use hmac::{Hmac, Mac};
use sha2::{Digest, Sha256, Sha384, Sha512};

// ---------------------------------------------------------------------------------------------
// wire reader (RFC 9420 §2.1.2 variable-size vectors)

pub struct Rd<'a> {
    pub b: &'a [u8],
    pub pos: usize,
}

#[derive(Debug, Clone)]
pub struct ParseErr(pub String);

type PR<T> = Result<T, ParseErr>;

impl<'a> Rd<'a> {
    pub fn new(b: &'a [u8]) -> Self {
        Rd { b, pos: 0 }
    }
    pub fn left(&self) -> usize {
        self.b.len() - self.pos
    }
    pub fn take(&mut self, n: usize) -> PR<&'a [u8]> {
        if self.left() < n {
            return Err(ParseErr(format!("need {n} bytes at {}, have {}", self.pos, self.left())));
        }
        let s = &self.b[self.pos..self.pos + n];
        self.pos += n;
        Ok(s)
    }
    pub fn u8(&mut self) -> PR<u8> {
        Ok(self.take(1)?[0])
    }
    pub fn u16(&mut self) -> PR<u16> {
        let s = self.take(2)?;
        Ok(u16::from_be_bytes([s[0], s[1]]))
    }
    pub fn u32(&mut self) -> PR<u32> {
        let s = self.take(4)?;
        Ok(u32::from_be_bytes([s[0], s[1], s[2], s[3]]))
    }
    pub fn u64(&mut self) -> PR<u64> {
        let s = self.take(8)?;
        Ok(u64::from_be_bytes(s.try_into().unwrap()))
    }
    /// variable-length integer: two top bits give the width (1, 2 or 4 bytes)
    pub fn varint(&mut self) -> PR<usize> {
        let first = self.u8()?;
        let (extra, mut v) = match first >> 6 {
            0 => (0, (first & 0x3f) as usize),
            1 => (1, (first & 0x3f) as usize),
            2 => (3, (first & 0x3f) as usize),
            _ => return Err(ParseErr("varint prefix 11".into())),
        };
        for _ in 0..extra {
            v = (v << 8) | self.u8()? as usize;
        }
        Ok(v)
    }
    pub fn vec(&mut self) -> PR<&'a [u8]> {
        let n = self.varint()?;
        self.take(n)
    }
}

pub fn put_varint(out: &mut Vec<u8>, n: usize) {
    if n < 64 {
        out.push(n as u8);
    } else if n < 16384 {
        out.extend_from_slice(&((n as u16) | 0x4000).to_be_bytes());
    } else {
        out.extend_from_slice(&((n as u32) | 0x8000_0000).to_be_bytes());
    }
}

pub fn put_vec(out: &mut Vec<u8>, b: &[u8]) {
    put_varint(out, b.len());
    out.extend_from_slice(b);
}

// ---------------------------------------------------------------------------------------------
// ratchet tree

#[derive(Clone, Debug, PartialEq, Eq)]
pub struct Leaf {
    pub enc_key: Vec<u8>,
    pub sig_key: Vec<u8>,
    pub identity: Vec<u8>,
    pub source: u8,
    pub parent_hash: Vec<u8>,
    /// the exact bytes of the LeafNode structure
    pub raw: Vec<u8>,
}

#[derive(Clone, Debug, PartialEq, Eq)]
pub struct Parent {
    pub enc_key: Vec<u8>,
    pub parent_hash: Vec<u8>,
    pub unmerged: Vec<u32>,
    pub raw: Vec<u8>,
}

#[derive(Clone, Debug, PartialEq, Eq)]
pub enum Node {
    Leaf(Leaf),
    Parent(Parent),
}

#[derive(Clone, Debug)]
pub struct Tree {
    /// node array as exported (trailing blanks stripped)
    pub nodes: Vec<Option<Node>>,
}

fn parse_leaf(r: &mut Rd) -> PR<Leaf> {
    let start = r.pos;
    let enc_key = r.vec()?.to_vec();
    let sig_key = r.vec()?.to_vec();
    let ctype = r.u16()?;
    let identity = match ctype {
        1 => r.vec()?.to_vec(),
        2 => {
            // x509: vector of certificates, each an opaque<V>
            let chain = r.vec()?;
            chain.to_vec()
        }
        _ => r.vec()?.to_vec(),
    };
    // capabilities: five vectors
    for _ in 0..5 {
        r.vec()?;
    }
    let source = r.u8()?;
    let mut parent_hash = vec![];
    match source {
        1 => {
            r.u64()?;
            r.u64()?;
        }
        2 => {}
        3 => parent_hash = r.vec()?.to_vec(),
        x => return Err(ParseErr(format!("leaf node source {x}"))),
    }
    r.vec()?; // extensions
    r.vec()?; // signature
    Ok(Leaf {
        enc_key,
        sig_key,
        identity,
        source,
        parent_hash,
        raw: r.b[start..r.pos].to_vec(),
    })
}

fn parse_parent(r: &mut Rd) -> PR<Parent> {
    let start = r.pos;
    let enc_key = r.vec()?.to_vec();
    let parent_hash = r.vec()?.to_vec();
    let um = r.vec()?;
    let mut ur = Rd::new(um);
    let mut unmerged = vec![];
    while ur.left() > 0 {
        unmerged.push(ur.u32()?);
    }
    Ok(Parent {
        enc_key,
        parent_hash,
        unmerged,
        raw: r.b[start..r.pos].to_vec(),
    })
}

impl Tree {
    /// parse the bytes of `ExportedTree::to_bytes()` (= optional<Node> ratchet_tree<V>)
    pub fn parse(bytes: &[u8]) -> PR<Tree> {
        let mut r = Rd::new(bytes);
        let body = r.vec()?;
        if r.left() != 0 {
            return Err(ParseErr("trailing bytes after tree".into()));
        }
        let mut r = Rd::new(body);
        let mut nodes = vec![];
        while r.left() > 0 {
            match r.u8()? {
                0 => nodes.push(None),
                1 => {
                    let t = r.u8()?;
                    let n = match t {
                        1 => Node::Leaf(parse_leaf(&mut r)?),
                        2 => Node::Parent(parse_parent(&mut r)?),
                        x => return Err(ParseErr(format!("node type {x}"))),
                    };
                    let idx = nodes.len();
                    match (&n, idx % 2) {
                        (Node::Leaf(_), 0) | (Node::Parent(_), 1) => {}
                        _ => return Err(ParseErr(format!("node kind does not match position {idx}"))),
                    }
                    nodes.push(Some(n));
                }
                x => return Err(ParseErr(format!("optional marker {x}"))),
            }
        }
        Ok(Tree { nodes })
    }

    /// number of leaves of the full (power of two) tree that holds the exported nodes
    pub fn full_leaves(&self) -> u32 {
        let n = (self.nodes.len() as u32 + 1) / 2;
        n.max(1).next_power_of_two()
    }

    pub fn node(&self, idx: u32) -> Option<&Node> {
        self.nodes.get(idx as usize).and_then(|n| n.as_ref())
    }

    pub fn leaf(&self, i: u32) -> Option<&Leaf> {
        match self.node(2 * i) {
            Some(Node::Leaf(l)) => Some(l),
            _ => None,
        }
    }

    pub fn parent(&self, idx: u32) -> Option<&Parent> {
        match self.node(idx) {
            Some(Node::Parent(p)) => Some(p),
            _ => None,
        }
    }

    pub fn occupied_leaves(&self) -> Vec<u32> {
        (0..self.full_leaves()).filter(|i| self.leaf(*i).is_some()).collect()
    }

    /// index of the node that is the root of the subtree over leaves [lo, hi)
    pub fn idx(lo: u32, hi: u32) -> u32 {
        lo + hi - 1
    }

    /// resolution of the subtree over leaves [lo, hi): node indices (RFC 9420 §4.1.1)
    pub fn resolution(&self, lo: u32, hi: u32) -> Vec<u32> {
        let idx = Self::idx(lo, hi);
        if hi - lo == 1 {
            return if self.leaf(lo).is_some() { vec![idx] } else { vec![] };
        }
        match self.parent(idx) {
            Some(p) => {
                let mut v = vec![idx];
                v.extend(p.unmerged.iter().map(|l| 2 * l));
                v
            }
            None => {
                let mid = (lo + hi) / 2;
                let mut v = self.resolution(lo, mid);
                v.extend(self.resolution(mid, hi));
                v
            }
        }
    }

    /// (path node range, copath node range) pairs from the leaf's parent up to the root
    pub fn direct_copath(&self, leaf: u32) -> Vec<((u32, u32), (u32, u32))> {
        let mut out = vec![];
        let (mut lo, mut hi) = (0u32, self.full_leaves());
        while hi - lo > 1 {
            let mid = (lo + hi) / 2;
            if leaf < mid {
                out.push(((lo, hi), (mid, hi)));
                hi = mid;
            } else {
                out.push(((lo, hi), (lo, mid)));
                lo = mid;
            }
        }
        out.reverse();
        out
    }

    /// all leaf and parent encryption keys in the tree
    pub fn all_keys(&self) -> Vec<Vec<u8>> {
        self.nodes
            .iter()
            .flatten()
            .map(|n| match n {
                Node::Leaf(l) => l.enc_key.clone(),
                Node::Parent(p) => p.enc_key.clone(),
            })
            .collect()
    }

    pub fn key_of(&self, idx: u32) -> Option<Vec<u8>> {
        self.node(idx).map(|n| match n {
            Node::Leaf(l) => l.enc_key.clone(),
            Node::Parent(p) => p.enc_key.clone(),
        })
    }

    /// tree hash (RFC 9420 §7.8), computed from scratch
    pub fn tree_hash(&self, h: HashAlg) -> Vec<u8> {
        self.th(0, self.full_leaves(), h)
    }

    pub fn th(&self, lo: u32, hi: u32, h: HashAlg) -> Vec<u8> {
        let mut input = vec![];
        if hi - lo == 1 {
            input.push(1u8);
            input.extend_from_slice(&lo.to_be_bytes());
            match self.leaf(lo) {
                Some(l) => {
                    input.push(1);
                    input.extend_from_slice(&l.raw);
                }
                None => input.push(0),
            }
        } else {
            let mid = (lo + hi) / 2;
            let left = self.th(lo, mid, h);
            let right = self.th(mid, hi, h);
            input.push(2u8);
            match self.parent(Self::idx(lo, hi)) {
                Some(p) => {
                    input.push(1);
                    input.extend_from_slice(&p.raw);
                }
                None => input.push(0),
            }
            put_vec(&mut input, &left);
            put_vec(&mut input, &right);
        }
        h.hash(&input)
    }

    /// structural checks of RFC 9420 that do not need any hash: no trailing blank, unmerged lists sorted,
    /// unmerged leaves non-blank and below the node
    pub fn structural_problems(&self) -> Vec<String> {
        let mut out = vec![];
        if matches!(self.nodes.last(), Some(None)) {
            out.push("tree ends in a blank node".to_string());
        }
        self.walk(0, self.full_leaves(), &mut out);
        out
    }

    fn walk(&self, lo: u32, hi: u32, out: &mut Vec<String>) {
        if hi - lo == 1 {
            return;
        }
        let idx = Self::idx(lo, hi);
        if let Some(p) = self.parent(idx) {
            let mut prev: Option<u32> = None;
            for l in &p.unmerged {
                if let Some(pv) = prev {
                    if *l <= pv {
                        out.push(format!("unmerged leaves of node {idx} not strictly increasing"));
                    }
                }
                prev = Some(*l);
                if *l < lo || *l >= hi {
                    out.push(format!("unmerged leaf {l} of node {idx} is outside its subtree [{lo},{hi})"));
                }
                if self.leaf(*l).is_none() {
                    out.push(format!("unmerged leaf {l} of node {idx} is blank"));
                }
            }
        }
        let mid = (lo + hi) / 2;
        self.walk(lo, mid, out);
        self.walk(mid, hi, out);
    }
}

// ---------------------------------------------------------------------------------------------
// hash / KDF of the cipher suites

#[derive(Clone, Copy, Debug, PartialEq, Eq)]
pub enum HashAlg {
    Sha256,
    Sha384,
    Sha512,
}

impl HashAlg {
    pub fn for_suite(cs: u16) -> HashAlg {
        match cs {
            1 | 2 | 3 => HashAlg::Sha256,
            7 => HashAlg::Sha384,
            4 | 5 | 6 => HashAlg::Sha512,
            _ => HashAlg::Sha256,
        }
    }
    pub fn len(&self) -> usize {
        match self {
            HashAlg::Sha256 => 32,
            HashAlg::Sha384 => 48,
            HashAlg::Sha512 => 64,
        }
    }
    pub fn hash(&self, data: &[u8]) -> Vec<u8> {
        match self {
            HashAlg::Sha256 => Sha256::digest(data).to_vec(),
            HashAlg::Sha384 => Sha384::digest(data).to_vec(),
            HashAlg::Sha512 => Sha512::digest(data).to_vec(),
        }
    }
    pub fn hmac(&self, key: &[u8], data: &[u8]) -> Vec<u8> {
        match self {
            HashAlg::Sha256 => {
                let mut m = Hmac::<Sha256>::new_from_slice(key).expect("hmac key");
                m.update(data);
                m.finalize().into_bytes().to_vec()
            }
            HashAlg::Sha384 => {
                let mut m = Hmac::<Sha384>::new_from_slice(key).expect("hmac key");
                m.update(data);
                m.finalize().into_bytes().to_vec()
            }
            HashAlg::Sha512 => {
                let mut m = Hmac::<Sha512>::new_from_slice(key).expect("hmac key");
                m.update(data);
                m.finalize().into_bytes().to_vec()
            }
        }
    }
    /// HKDF-Extract (RFC 5869)
    pub fn extract(&self, salt: &[u8], ikm: &[u8]) -> Vec<u8> {
        let zero = vec![0u8; self.len()];
        self.hmac(if salt.is_empty() { &zero } else { salt }, ikm)
    }
    /// HKDF-Expand (RFC 5869)
    pub fn expand(&self, prk: &[u8], info: &[u8], len: usize) -> Vec<u8> {
        let mut out = vec![];
        let mut t: Vec<u8> = vec![];
        let mut i = 1u8;
        while out.len() < len {
            let mut input = t.clone();
            input.extend_from_slice(info);
            input.push(i);
            t = self.hmac(prk, &input);
            out.extend_from_slice(&t);
            i = i.wrapping_add(1);
        }
        out.truncate(len);
        out
    }
    /// ExpandWithLabel (RFC 9420 §8)
    pub fn expand_with_label(&self, secret: &[u8], label: &str, context: &[u8], len: usize) -> Vec<u8> {
        let mut info = vec![];
        info.extend_from_slice(&(len as u16).to_be_bytes());
        let full = format!("MLS 1.0 {label}");
        put_vec(&mut info, full.as_bytes());
        put_vec(&mut info, context);
        self.expand(secret, &info, len)
    }
    pub fn derive_secret(&self, secret: &[u8], label: &str) -> Vec<u8> {
        self.expand_with_label(secret, label, &[], self.len())
    }
}
