//! Running worlds: one run on a fresh thread, batches on all cores, replay, minimisation, evidence.

use std::collections::{BTreeMap, BTreeSet};
use std::sync::atomic::{AtomicBool, AtomicU64, Ordering};
use std::sync::{Arc, Mutex};
use std::time::Instant;

use crate::gen::{preset, Gen};
use crate::prng::{hash_str, mix};
use crate::types::*;
use crate::world::*;

pub struct RunOutcome {
    pub violation: Option<Violation>,
    pub trace: Vec<Step>,
    pub stats: Stats,
    pub log_hash: String,
    pub kinds: Vec<String>,
    pub states: BTreeSet<u64>,
    pub known_hits: Vec<String>,
    pub log_tail: Vec<String>,
    pub harness_error: Option<String>,
    /// C14: the first recorded provider disagreement of the run, with its inputs
    pub prim: Option<PrimCase>,
}

fn run_body(cfg: &SwarmCfg, seed: u64, replay: Option<&[Step]>) -> RunOutcome {
    crate::interpose::set_thread_seed(mix(&[seed, 0x6e7]));
    crate::crypto::rec_reset(cfg.oracle("record-crypto"));
    let mut out = RunOutcome {
        violation: None,
        trace: vec![],
        stats: Stats::default(),
        log_hash: String::new(),
        kinds: vec![],
        states: BTreeSet::new(),
        known_hits: vec![],
        log_tail: vec![],
        harness_error: None,
        prim: None,
    };
    let mut w = match World::new(cfg.clone(), seed) {
        Ok(w) => w,
        Err(v) => {
            out.harness_error = Some(format!("world set-up failed: {}", v.detail));
            return out;
        }
    };
    w.known = crate::known::signatures_for(&cfg.property);
    let res = drive(&mut w, replay);
    if let Err(v) = res {
        if v.property == "HARNESS" {
            out.harness_error = Some(v.detail.clone());
        } else {
            out.violation = Some(v);
        }
    }
    let rc = crate::crypto::rec_counts();
    if rc.6 > 0 {
        *w.stats.checks.entry("provider-cross-comparisons".into()).or_default() += rc.6;
    }
    if cfg.cross.is_some() || cfg.providers.len() > 1 {
        for p in &w.parties {
            *w.stats.probes.entry(format!("party-provider:{}", p.provider.name())).or_default() += 1;
        }
        *w.stats.probes.entry(format!("suite:{}", cfg.suite)).or_default() += 1;
    }
    out.trace = std::mem::take(&mut w.trace);
    out.stats = w.stats.clone();
    out.log_hash = w.log_hash();
    out.kinds = std::mem::take(&mut w.kinds);
    out.states = std::mem::take(&mut w.states_seen);
    out.known_hits = std::mem::take(&mut w.ext.known_hits);
    out.log_tail = std::mem::take(&mut w.log_tail);
    out.prim = crate::crypto::rec_take_prim_cases().into_iter().next();
    out
}

fn drive(w: &mut World, replay: Option<&[Step]>) -> VResult<()> {
    crate::scenarios::setup(w)?;
    let mut n = 0u32;
    match replay {
        Some(actions) => {
            for s in actions {
                n = n.max(s.n);
                w.trace.push(s.clone());
                w.exec(s)?;
            }
        }
        None => {
            let steps = w.cfg.steps;
            while n < steps {
                n += 1;
                let Some(a) = Gen::next(w) else { break };
                let s = Step { n, a };
                w.trace.push(s.clone());
                w.exec(&s)?;
            }
        }
    }
    // Heal phase + bounded liveness. The heal planner is a pure function of the world state (no PRNG), so it
    // is not part of the recorded action list: a replay runs it again after the recorded actions.
    let mut stage = 0u32;
    // bound: what is outstanding now, plus for every party (an invited one joins first and then has to follow every
    // later commit) the whole log, a final write and the final round of the heal planner
    let longest = w.groups.iter().map(|g| g.log.len()).max().unwrap_or(0) as u32;
    // (an observer may still have to be fed every handshake message that exists)
    let observers = (w.ext.observers.len() * (w.msgs.len() + 8)) as u32;
    let budget = 2 * (outstanding(w) as u32) + (w.parties.len() as u32) * (longest + 8) * (w.groups.len().max(1) as u32) + observers + 40;
    let mut used = 0u32;
    n += 1000;
    while let Some(a) = Gen::heal(w, &mut stage) {
        n += 1;
        used += 1;
        if used > budget {
            // not converged within the bound: `finish` reports which member is behind
            break;
        }
        let s = Step { n, a };
        let done = w.exec(&s)?;
        if !done {
            // an action the heal planner believes enabled was skipped: planner / model mismatch
            return Err(Violation::new(
                "HARNESS",
                "heal",
                "heal-skip".into(),
                format!("heal action {:?} was not enabled", s.a),
            ));
        }
    }
    crate::scenarios::finish(w)?;
    Ok(())
}

fn outstanding(w: &World) -> usize {
    let mut n = 0;
    for p in &w.parties {
        for (gi, m) in p.mems.iter().enumerate() {
            n += m.inbox.len();
            if let (Some(g), Some(t)) = (m.group.as_ref(), w.groups.get(gi)) {
                n += t.log.len().saturating_sub(g.current_epoch() as usize);
            }
        }
    }
    n
}

/// One run = one fresh thread (fresh `RandomState` keys derived from the seed, fresh recorder) that is
/// the only worker of its own rayon pool, so `par_iter` inside the library runs inline and in order.
pub fn run_one(cfg: &SwarmCfg, seed: u64, replay: Option<Vec<Step>>) -> RunOutcome {
    let cfg = cfg.clone();
    let h = std::thread::Builder::new()
        .stack_size(16 << 20)
        .spawn(move || {
            let pool = rayon::ThreadPoolBuilder::new()
                .num_threads(1)
                .use_current_thread()
                .build();
            match pool {
                Ok(pool) => pool.install(|| run_body(&cfg, seed, replay.as_deref())),
                Err(_) => run_body(&cfg, seed, replay.as_deref()),
            }
        })
        .expect("spawn run thread");
    match h.join() {
        Ok(o) => o,
        Err(p) => RunOutcome {
            violation: None,
            trace: vec![],
            stats: Stats::default(),
            log_hash: String::new(),
            kinds: vec![],
            states: BTreeSet::new(),
            known_hits: vec![],
            log_tail: vec![],
            harness_error: Some(format!("harness panic: {}", panic_msg(p))),
            prim: None,
        },
    }
}

pub fn run_seed(master: u64, property: &str, i: u64) -> u64 {
    mix(&[master, hash_str(property), i])
}

#[derive(Default)]
pub struct Agg {
    pub runs: u64,
    pub stats: Stats,
    pub seq_hashes: BTreeSet<u64>,
    pub nontrivial: BTreeSet<u64>,
    pub states: BTreeSet<u64>,
    pub samples: Vec<serde_json::Value>,
    pub violations: Vec<(u64, u64, SwarmCfg, RunOutcome)>,
    pub known: BTreeMap<String, u64>,
    pub harness_errors: Vec<String>,
    pub log_hashes: BTreeMap<u64, String>,
    pub scenarios: BTreeMap<String, u64>,
}

pub struct BatchParams {
    pub property: String,
    pub tier: String,
    pub seed: u64,
    pub max_runs: u64,
    pub budget_s: f64,
    pub jobs: usize,
    pub stop_on_violation: bool,
}

pub fn nontrivial(cfg: &SwarmCfg, st: &Stats) -> bool {
    let relevant: u64 = st.faults.values().sum::<u64>() + st.probes.values().sum::<u64>();
    let _ = cfg;
    st.epochs >= 2 && relevant >= 1
}

pub fn run_batch(bp: &BatchParams) -> (Agg, f64) {
    let t0 = Instant::now();
    let next = Arc::new(AtomicU64::new(0));
    let stop = Arc::new(AtomicBool::new(false));
    let agg = Arc::new(Mutex::new(Agg::default()));
    let mut hs = vec![];
    for _ in 0..bp.jobs {
        let next = next.clone();
        let stop = stop.clone();
        let agg = agg.clone();
        let property = bp.property.clone();
        let tier = bp.tier.clone();
        let (seed, max_runs, budget_s, sov) = (bp.seed, bp.max_runs, bp.budget_s, bp.stop_on_violation);
        hs.push(std::thread::spawn(move || loop {
            if stop.load(Ordering::Relaxed) || t0.elapsed().as_secs_f64() > budget_s {
                break;
            }
            let i = next.fetch_add(1, Ordering::Relaxed);
            if i >= max_runs {
                break;
            }
            let rs = run_seed(seed, &property, i);
            let cfg = preset(&property, &tier, rs);
            let out = run_one(&cfg, rs, None);
            let mut a = agg.lock().unwrap();
            a.runs += 1;
            a.stats.merge(&out.stats);
            *a.scenarios.entry(cfg.scenario.clone()).or_default() += 1;
            let mut h = 0u64;
            for k in &out.kinds {
                h = mix(&[h, hash_str(k)]);
            }
            a.seq_hashes.insert(h);
            if nontrivial(&cfg, &out.stats) {
                a.nontrivial.insert(h);
            }
            a.states.extend(out.states.iter().copied());
            for k in &out.known_hits {
                *a.known.entry(k.clone()).or_default() += 1;
            }
            if a.samples.len() < 3 && out.trace.len() > 5 {
                a.samples.push(serde_json::json!({
                    "run": i, "seed": rs, "scenario": cfg.scenario, "parties": cfg.n_parties,
                    "suite": cfg.suite, "actions": out.trace.iter().take(60).map(|s| compact(&s.a)).collect::<Vec<_>>(),
                    "log_tail": out.log_tail.iter().take(25).cloned().collect::<Vec<_>>(),
                }));
            }
            a.log_hashes.insert(i, out.log_hash.clone());
            if let Some(e) = &out.harness_error {
                a.harness_errors.push(format!("run {i} seed {rs}: {e}"));
                stop.store(true, Ordering::Relaxed);
            }
            if out.violation.is_some() {
                if sov {
                    stop.store(true, Ordering::Relaxed);
                }
                a.violations.push((i, rs, cfg, out));
            }
        }));
    }
    for h in hs {
        let _ = h.join();
    }
    let wall = t0.elapsed().as_secs_f64();
    let agg = Arc::try_unwrap(agg).ok().expect("agg").into_inner().unwrap();
    (agg, wall)
}

pub fn compact(a: &Action) -> String {
    let s = format!("{a:?}");
    if s.len() > 160 {
        format!("{}…", &s[..160])
    } else {
        s
    }
}

fn same_failure(a: &Violation, b: &Violation) -> bool {
    a.property == b.property && a.oracle == b.oracle && a.signature == b.signature
}

/// delta debugging over the action list; keeps a candidate only if it fails the same way
pub fn minimise(cfg: &SwarmCfg, seed: u64, trace: &[Step], v: &Violation, budget: usize) -> (Vec<Step>, Violation, usize) {
    let mut cur: Vec<Step> = trace.to_vec();
    // drop everything after the failing step first
    cur.retain(|s| s.n <= v.step || v.step == 0);
    let mut curv = v.clone();
    let mut tries = 0usize;
    let test = |cand: &Vec<Step>, tries: &mut usize| -> Option<Violation> {
        *tries += 1;
        let o = run_one(cfg, seed, Some(cand.clone()));
        match o.violation {
            Some(nv) if same_failure(&nv, v) => Some(nv),
            _ => None,
        }
    };
    match test(&cur, &mut tries) {
        Some(nv) => curv = nv,
        None => return (trace.to_vec(), v.clone(), tries),
    }
    let mut chunk = (cur.len() / 2).max(1);
    while chunk >= 1 && tries < budget {
        let mut i = 0;
        let mut progress = false;
        while i < cur.len() && tries < budget {
            let end = (i + chunk).min(cur.len());
            let mut cand = cur.clone();
            cand.drain(i..end);
            if let Some(nv) = test(&cand, &mut tries) {
                cur = cand;
                curv = nv;
                progress = true;
            } else {
                i = end;
            }
        }
        if chunk == 1 && !progress {
            break;
        }
        if chunk > 1 {
            chunk /= 2;
        }
    }
    (cur, curv, tries)
}

pub fn write_replay(dir: &str, rf: &ReplayFile) -> std::io::Result<String> {
    std::fs::create_dir_all(dir)?;
    let sig = rf
        .violation
        .as_ref()
        .map(|v| hash_str(&format!("{}{}", v.oracle, v.signature)))
        .unwrap_or(0);
    let path = format!("{dir}/{}-{:016x}-{:08x}.json", rf.property, rf.seed, sig as u32);
    std::fs::write(&path, serde_json::to_vec_pretty(rf).unwrap())?;
    Ok(path)
}

pub fn replay_file(path: &str) -> Result<(ReplayFile, RunOutcome), String> {
    let data = std::fs::read(path).map_err(|e| format!("read {path}: {e}"))?;
    let rf: ReplayFile = serde_json::from_slice(&data).map_err(|e| format!("parse {path}: {e}"))?;
    let out = run_one(&rf.cfg, rf.seed, Some(rf.actions.clone()));
    Ok((rf, out))
}
