//! C16: an external observer (ExternalGroup) as a node of the simulation.

use mls_rs::external_client::builder::{ExternalBaseConfig, WithCryptoProvider, WithIdentityProvider};
use mls_rs::external_client::{ExternalClient, ExternalGroup, ExternalReceivedMessage, ExternalSnapshot};
use mls_rs::mls_rs_codec::MlsEncode;
use mls_rs::MlsMessage;
use std::collections::BTreeSet;

use crate::crypto::SimCrypto;
use crate::seams::SimIdentity;
use crate::types::*;
use crate::world::*;

pub type ExtCfg = WithCryptoProvider<SimCrypto, WithIdentityProvider<SimIdentity, ExternalBaseConfig>>;

pub const EXT_SENDER: usize = 9_000;

pub struct Observer {
    pub client: ExternalClient<ExtCfg>,
    pub group: ExternalGroup<ExtCfg>,
    pub g: usize,
    pub jitter: Option<u64>,
    pub fed: BTreeSet<u64>,
    pub started: u64,
    pub snapshots: u32,
    /// `cache_proposals(false)`: the application (the harness) hands accepted proposals back with
    /// `insert_proposal_from_message`
    pub app_cache: bool,
}

fn viol(w: &World, oracle: &str, sig: String, detail: String) -> Violation {
    Violation::new(&w.cfg.property, oracle, sig, detail)
}

fn make_client(w: &World, jitter: Option<u64>, app_cache: bool) -> ExternalClient<ExtCfg> {
    let crypto = SimCrypto::new(w.cfg.providers[0], w.idgen_ctx.clone());
    let mut b = ExternalClient::builder()
        .identity_provider(SimIdentity::default())
        .crypto_provider(crypto)
        .extension_type(mls_rs::extension::ExtensionType::new(0xF001))
        .custom_proposal_types(Some(mls_rs::group::proposal::ProposalType::new(0xF000)))
        .cache_proposals(!app_cache);
    if let Some(j) = jitter {
        b = b.max_epoch_jitter(j);
    }
    if let Some((sk, sid)) = &w.ext.ext_sender {
        b = b.signer(sk.clone(), sid.clone());
    }
    b.build()
}

/// start observing group g from the GroupInfo of an up-to-date member
pub fn do_observe(w: &mut World, g: usize, jitter_code: u64) -> VResult<bool> {
    if g >= w.groups.len() || w.ext.observers.len() >= 2 {
        return Ok(false);
    }
    let latest = w.groups[g].log.len() as u64;
    let Some(src) = w.live_members(g).into_iter().find(|q| w.epoch_of(*q, g) == Some(latest)) else {
        return Ok(false);
    };
    let jitter = match jitter_code {
        0 => None,
        1 => Some(0),
        2 => Some(1),
        3 => Some(3),
        4 => Some(latest.saturating_sub(1)),
        5 => Some(latest),
        6 => Some(latest + 1),
        _ => Some(1000),
    };
    let prop = w.cfg.property.clone();
    let with_tree = jitter_code % 2 == 0;
    let (gi, tree) = {
        let grp = w.parties[src].mems[g].group.as_ref().unwrap();
        let gi = match grp.group_info_message(with_tree) {
            Ok(m) => m.to_bytes().unwrap_or_default(),
            Err(_) => return Ok(false),
        };
        (gi, grp.export_tree().to_bytes().unwrap_or_default())
    };
    let app_cache = crate::prng::mix(&[w.seed, 0x0b5e, w.ext.observers.len() as u64, latest]) % 3 == 0;
    let client = make_client(w, jitter, app_cache);
    let now = w.now();
    let r = guarded(&prop, "observe_group", || {
        let t = if with_tree {
            None
        } else {
            Some(mls_rs::group::ExportedTree::from_bytes(&tree)?)
        };
        client.observe_group(MlsMessage::from_bytes(&gi)?, t, Some(now))
    })?;
    match r {
        Ok(group) => {
            w.ev(format!("observe g{g} from P{src} at e{latest} jitter={jitter:?} app_cache={app_cache}"));
            if app_cache {
                w.stats.probe("observer-with-application-side-proposal-cache");
            }
            *w.stats.probes.entry(format!("observer-jitter:{jitter_code}")).or_default() += 1;
            let mut fed = BTreeSet::new();
            // everything of earlier epochs is irrelevant for a fresh observer
            for (id, m) in &w.msgs {
                if m.g == g && m.epoch < latest && m.kind != MsgKind::App {
                    fed.insert(*id);
                }
            }
            w.ext.observers.push(Observer {
                client,
                group,
                g,
                jitter,
                fed,
                started: latest,
                snapshots: 0,
                app_cache,
            });
            check_state(w, w.ext.observers.len() - 1, "observe_group")?;
            Ok(true)
        }
        Err(e) => Err(viol(
            w,
            "observer-start",
            format!("observe-group-failed:{}", err_class(&e)),
            format!("an observer could not start from P{src}'s current GroupInfo of g{g} (epoch {latest}): {e:?}"),
        )),
    }
}

/// the observer's public state must equal the members' canonical record of its epoch
fn check_state(w: &mut World, k: usize, how: &str) -> VResult<()> {
    let (g, epoch, ctx, tree, roster) = {
        let o = &w.ext.observers[k];
        let ctx = o.group.group_context().mls_encode_to_vec().unwrap_or_default();
        let tree = o.group.export_tree().unwrap_or_default();
        let roster: Vec<(u32, Vec<u8>)> = o
            .group
            .roster()
            .members()
            .into_iter()
            .map(|m| (m.index, m.signing_identity.signature_key.as_ref().to_vec()))
            .collect();
        (o.g, o.group.group_context().epoch, ctx, tree, roster)
    };
    let Some(rec) = w.groups[g].records.get(&epoch) else {
        return Ok(());
    };
    w.stats.check("observer-state-equals-members");
    let mut diffs = vec![];
    if rec.ctx != ctx {
        diffs.push("context");
    }
    if rec.tree != tree {
        diffs.push("tree");
    }
    let want: Vec<(u32, Vec<u8>)> = rec.roster.iter().map(|(i, _, k)| (*i, k.clone())).collect();
    if want != roster {
        diffs.push("roster");
    }
    if !diffs.is_empty() {
        return Err(viol(
            w,
            "observer-state-equals-members",
            format!("observer-differs:{}", diffs.join("+")),
            format!("observer {k} at epoch {epoch} of g{g} (after {how}) differs from the members in {:?}", diffs),
        ));
    }
    Ok(())
}

/// what the observer should see next: proposals of its epoch, then the winning commit
fn next_for(w: &World, k: usize) -> Option<u64> {
    let o = &w.ext.observers[k];
    let g = o.g;
    let epoch = o.group.group_context().epoch;
    if let Some(ps) = w.groups[g].props.get(&epoch) {
        for id in ps {
            if !o.fed.contains(id) {
                return Some(*id);
            }
        }
    }
    w.groups[g].log.get(epoch as usize).copied().filter(|c| !o.fed.contains(c))
}

pub fn next_pending(w: &World, k: usize) -> bool {
    next_for(w, k).is_some()
}

pub fn obs_pending(w: &World) -> bool {
    (0..w.ext.observers.len()).any(|k| next_for(w, k).is_some())
}

pub fn do_obs_feed(w: &mut World, k: usize, app_pick: u64) -> VResult<bool> {
    if k >= w.ext.observers.len() {
        return Ok(false);
    }
    let prop = w.cfg.property.clone();
    let now = w.now();
    let g = w.ext.observers[k].g;
    // sometimes an application ciphertext (must be let through inside the epoch window), otherwise the next
    // handshake message in delivery-service order
    let apps: Vec<u64> = w.groups[g].apps.clone();
    let feed_app = app_pick % 4 == 0 && !apps.is_empty();
    let id = if feed_app {
        apps[(app_pick / 4) as usize % apps.len()]
    } else {
        match next_for(w, k) {
            Some(id) => id,
            None => return Ok(false),
        }
    };
    let msg = w.msgs[&id].clone();
    let epoch = w.ext.observers[k].group.group_context().epoch;
    let jitter = w.ext.observers[k].jitter;
    let mut grp = w.ext.observers[k].group.clone();
    let bytes = msg.bytes.clone();
    let r = guarded(&prop, "observer.process_incoming_message", || {
        grp.process_incoming_message_with_time(MlsMessage::from_bytes(&bytes)?, now)
    })?;
    w.stats.op("observer_process");
    if !feed_app {
        w.ext.observers[k].fed.insert(id);
    }
    match r {
        Ok(ev) => {
            w.ext.observers[k].group = grp;
            match (&msg.kind, &ev) {
                (MsgKind::App, ExternalReceivedMessage::Ciphertext(_)) => {
                    w.stats.probe("observer-ciphertext-let-through");
                    if let Some(j) = jitter {
                        if msg.epoch < epoch.saturating_sub(j) {
                            return Err(viol(
                                w,
                                "observer-epoch-window",
                                "ciphertext-outside-window-accepted".into(),
                                format!("observer {k} (epoch {epoch}, max_epoch_jitter {j}) let a ciphertext of epoch {} through", msg.epoch),
                            ));
                        }
                    }
                }
                (_, ExternalReceivedMessage::Ciphertext(_)) if msg.private => {
                    w.stats.probe("observer-sees-encrypted-handshake");
                }
                (MsgKind::Proposal, ExternalReceivedMessage::Proposal(_)) => {
                    if w.ext.observers[k].app_cache {
                        let b2 = msg.bytes.clone();
                        let mut grp = w.ext.observers[k].group.clone();
                        let r = guarded(&prop, "observer.insert_proposal_from_message", || {
                            grp.insert_proposal_from_message(MlsMessage::from_bytes(&b2)?)
                        })?;
                        if let Err(e) = r {
                            return Err(viol(
                                w,
                                "observer-accepts-what-members-accept",
                                format!("observer-insert-proposal-failed:{}", err_class(&e)),
                                format!("observer {k} could not insert the accepted proposal {id}: {e:?}"),
                            ));
                        }
                        w.ext.observers[k].group = grp;
                    }
                    // the reference the harness computes for its forged commits is the library's
                    if let Some(want) = crate::c10::proposal_ref_of(w.cfg.suite, &msg.bytes) {
                        let cached = w.ext.observers[k].group.get_cached_proposals();
                        if !cached.iter().any(|c| c.proposal_ref().to_vec() == want) {
                            return Err(Violation::new(
                                "HARNESS",
                                "proposal-ref",
                                "proposal-ref-computation".into(),
                                format!("the observer's cache does not hold proposal {id} under the reference the harness computed"),
                            ));
                        }
                    }
                }
                (MsgKind::Commit, ExternalReceivedMessage::Commit(_)) => {
                    // proposals belong to one epoch: none is kept across the epoch change
                    let left = w.ext.observers[k].group.get_cached_proposals().len();
                    w.stats.check("observer-proposal-cache-empty-after-commit");
                    if left != 0 {
                        return Err(viol(
                            w,
                            "observer-proposal-cache",
                            "observer-keeps-proposals-of-closed-epoch".into(),
                            format!("observer {k} still caches {left} proposal(s) of epoch {} after moving to the next epoch with commit {id}", msg.epoch),
                        ));
                    }
                    let ne = w.ext.observers[k].group.group_context().epoch;
                    w.ev(format!("observer {k} g{g} commit {id} -> e{ne}"));
                    check_state(w, k, "commit")?;
                }
                (kind, _) => {
                    return Err(viol(
                        w,
                        "observer-event-kind",
                        "observer-wrong-kind".into(),
                        format!("observer {k} reported a different kind of event for {kind:?} message {id}"),
                    ))
                }
            }
            Ok(true)
        }
        Err(e) => {
            let cls = err_class(&e);
            w.ev(format!("observer {k} g{g} msg {id} ({:?} e{}) err {cls}", msg.kind, msg.epoch));
            match msg.kind {
                MsgKind::App => {
                    // inside the window a ciphertext must be let through
                    let inside = match jitter {
                        Some(j) => msg.epoch >= epoch.saturating_sub(j) && msg.epoch <= epoch,
                        None => msg.epoch <= epoch,
                    };
                    if inside {
                        return Err(viol(
                            w,
                            "observer-epoch-window",
                            format!("ciphertext-inside-window-rejected:{cls}"),
                            format!("observer {k} (epoch {epoch}, max_epoch_jitter {jitter:?}) rejected a ciphertext of epoch {}: {e:?}", msg.epoch),
                        ));
                    }
                    w.stats.probe("observer-old-ciphertext-rejected");
                    Ok(true)
                }
                _ if msg.private => {
                    // an observer cannot follow encrypted handshake traffic; not generated in C16 worlds
                    Ok(true)
                }
                _ => Err(viol(
                    w,
                    "observer-accepts-what-members-accept",
                    format!("observer-rejected-genuine:{:?}:{cls}", msg.kind),
                    format!("observer {k} at epoch {epoch} rejected the genuine {:?} message {id} of epoch {} that the members accept: {e:?}", msg.kind, msg.epoch),
                )),
            }
        }
    }
}

/// a corrupted copy of a public handshake message must be rejected by the observer (no secrets needed)
pub fn do_obs_corrupt(w: &mut World, k: usize, id: u64, m: &Mutation) -> VResult<bool> {
    if k >= w.ext.observers.len() {
        return Ok(false);
    }
    let Some(orig) = w.msgs.get(&id).cloned() else { return Ok(false) };
    if orig.private || orig.kind == MsgKind::App {
        return Ok(false);
    }
    let other = match m {
        Mutation::Splice { other, .. } => w.msgs.get(other).map(|o| o.bytes.clone()),
        _ => None,
    };
    let bytes = crate::oracles::apply_mutation(&orig.bytes, m, other.as_deref());
    if bytes == orig.bytes || other.as_deref() == Some(&bytes[..]) || bytes.starts_with(&orig.bytes) {
        return Ok(false);
    }
    // the membership tag at the end of a member's public message needs the membership key: an observer cannot
    // check it, so a change confined to the tag is not something it can detect
    if let Some(l) = crate::c13::public_layout(&orig.bytes) {
        // (the confirmation tag of a commit, between the signature and the membership tag, needs the confirmation
        // key and is equally out of an observer's reach)
        let checkable_end = if l.is_commit { l.sig_end } else { l.auth_end };
        if bytes.len() >= checkable_end && bytes[..checkable_end] == orig.bytes[..checkable_end] {
            w.stats.probe("observer-cannot-check-membership-tag");
            return Ok(false);
        }
    } else {
        return Ok(false);
    }
    let prop = w.cfg.property.clone();
    let now = w.now();
    let mut grp = w.ext.observers[k].group.clone();
    let before = grp.snapshot().to_bytes().unwrap_or_default();
    let r = guarded(&prop, "observer.process_incoming_message(corrupted)", || {
        grp.process_incoming_message_with_time(MlsMessage::from_bytes(&bytes)?, now)
    })?;
    w.stats.fault(crate::oracles::mutation_kind(m));
    match r {
        Ok(_) => Err(viol(
            w,
            "observer-rejects-modified",
            format!("observer-accepted-modified:{:?}", orig.kind),
            format!("observer {k} accepted a modified copy ({m:?}) of public {:?} message {id}", orig.kind),
        )),
        Err(_) => {
            let after = grp.snapshot().to_bytes().unwrap_or_default();
            w.stats.check("observer-unchanged-after-rejection");
            if before != after {
                return Err(viol(
                    w,
                    "observer-unchanged-after-rejection",
                    "observer-changed-by-rejected-message".into(),
                    format!("observer {k}: a rejected modified message changed its snapshot"),
                ));
            }
            Ok(true)
        }
    }
}

pub fn do_obs_snapshot(w: &mut World, k: usize) -> VResult<bool> {
    if k >= w.ext.observers.len() {
        return Ok(false);
    }
    let prop = w.cfg.property.clone();
    let bytes = w.ext.observers[k].group.snapshot().to_bytes().unwrap_or_default();
    crate::oracles::on_wire(w, &bytes, "external_snapshot")?;
    let client = make_client(w, w.ext.observers[k].jitter, w.ext.observers[k].app_cache);
    // every other restore keeps the tree outside the snapshot (snapshot_without_ratchet_tree +
    // load_group_with_ratchet_tree); the restored observer must be the same either way
    let oob = crate::prng::mix(&[w.seed, w.step_no as u64, 0x0b5e]) % 2 == 0;
    let r = if oob {
        let tree = w.ext.observers[k].group.export_tree().unwrap_or_default();
        let small = w.ext.observers[k].group.snapshot_without_ratchet_tree().to_bytes().unwrap_or_default();
        w.stats.probe("observer-restored-with-tree-from-the-application");
        if small.len() >= bytes.len() {
            return Err(viol(
                w,
                "observer-snapshot-restore",
                "tree-less-snapshot-not-smaller".into(),
                format!("observer {k}: the snapshot without ratchet tree ({} bytes) is not smaller than the full one ({} bytes)", small.len(), bytes.len()),
            ));
        }
        let again = w.ext.observers[k].group.snapshot().to_bytes().unwrap_or_default();
        if again != bytes {
            return Err(viol(
                w,
                "observer-snapshot-restore",
                "tree-less-snapshot-changed-observer".into(),
                format!("observer {k}: taking a snapshot without ratchet tree changed the observer"),
            ));
        }
        guarded(&prop, "observer.load_group_with_ratchet_tree", || {
            client.load_group_with_ratchet_tree(
                ExternalSnapshot::from_bytes(&small)?,
                mls_rs::group::ExportedTree::from_bytes(&tree)?,
            )
        })?
    } else {
        guarded(&prop, "observer.load_group", || client.load_group(ExternalSnapshot::from_bytes(&bytes)?))?
    };
    match r {
        Ok(grp) => {
            let again = grp.snapshot().to_bytes().unwrap_or_default();
            if again != bytes {
                return Err(viol(
                    w,
                    "observer-snapshot-restore",
                    "observer-snapshot-differs".into(),
                    format!("observer {k}: the snapshot of the restored observer differs from the snapshot it was restored from"),
                ));
            }
            w.ext.observers[k].group = grp;
            w.ext.observers[k].client = client;
            w.ext.observers[k].snapshots += 1;
            w.stats.probe("observer-snapshot-restored");
            check_state(w, k, "snapshot-restore")?;
            Ok(true)
        }
        Err(e) => Err(viol(
            w,
            "observer-snapshot-restore",
            format!("observer-restore-failed:{}", err_class(&e)),
            format!("observer {k} could not be restored from its own snapshot: {e:?}"),
        )),
    }
}

/// the observer, listed as an external sender, proposes to add an outsider or remove a member
pub fn do_obs_propose(w: &mut World, k: usize, what: u64, q: usize) -> VResult<bool> {
    if k >= w.ext.observers.len() || w.ext.ext_sender.is_none() || q >= w.parties.len() {
        return Ok(false);
    }
    let g = w.ext.observers[k].g;
    let latest = w.groups[g].log.len() as u64;
    let epoch = w.ext.observers[k].group.group_context().epoch;
    if epoch != latest || w.groups[g].reinit_at.is_some() || !w.groups[g].members.contains_key(&epoch) {
        return Ok(false);
    }
    let prop = w.cfg.property.clone();
    let is_member = w.groups[g].members.get(&epoch).map(|m| m.contains_key(&q)).unwrap_or(false);
    let mut grp = w.ext.observers[k].group.clone();
    let (r, spec) = if what % 2 == 0 {
        // add
        let st = w.mem(q, g).status.clone();
        if is_member || !matches!(st, Status::Never | Status::Removed) || w.multi() {
            return Ok(false);
        }
        w.prepare_rejoin(q, g)?;
        let Some(kp) = w.gen_key_package(q)? else { return Ok(false) };
        // what an observer (a server) does with an uploaded key package: ExternalClient::validate_key_package takes
        // the genuine one and refuses a copy with a flipped bit in the signed part
        {
            let client = make_client(w, w.ext.observers[k].jitter, w.ext.observers[k].app_cache);
            let now = w.now();
            let r = guarded(&prop, "observer.validate_key_package", || client.validate_key_package(MlsMessage::from_bytes(&kp)?, Some(now)))?;
            w.stats.check("observer-validates-key-packages");
            if let Err(e) = r {
                return Err(viol(
                    w,
                    "observer-key-package",
                    format!("genuine-key-package-refused:{}", err_class(&e)),
                    format!("observer {k}: validate_key_package refuses the fresh key package of P{q}: {e:?}"),
                ));
            }
            let mut bad = kp.clone();
            let at = 8 + (what as usize >> 1) % bad.len().saturating_sub(8).max(1);
            if at < bad.len() {
                bad[at] ^= 1 << (what % 8);
                let r = guarded(&prop, "observer.validate_key_package(flipped)", || client.validate_key_package(MlsMessage::from_bytes(&bad)?, Some(now)))?;
                if r.is_ok() {
                    return Err(viol(
                        w,
                        "observer-key-package",
                        "modified-key-package-accepted".into(),
                        format!("observer {k}: validate_key_package accepts the key package of P{q} with bit {} of byte {at} flipped", what % 8),
                    ));
                }
            }
        }
        (
            guarded(&prop, "observer.propose_add", || grp.propose_add(MlsMessage::from_bytes(&kp)?, vec![]))?,
            PropSpec::Add { q },
        )
    } else {
        if !is_member {
            return Ok(false);
        }
        let idx = w.groups[g].members[&epoch][&q];
        (
            guarded(&prop, "observer.propose_remove", || grp.propose_remove(idx, vec![]))?,
            PropSpec::Remove { q },
        )
    };
    match r {
        Err(e) => Err(viol(
            w,
            "external-sender-proposal",
            format!("observer-cannot-propose:{}", err_class(&e)),
            format!("observer {k}, listed in the external-senders extension, could not create a proposal: {e:?}"),
        )),
        Ok(m) => {
            w.ext.observers[k].group = grp;
            let id = w.new_msg_id();
            let bytes = m.to_bytes().unwrap_or_default();
            crate::oracles::on_wire(w, &bytes, "proposal")?;
            w.ev(format!("observer {k} proposes {spec:?} id={id}"));
            w.stats.probe("external-sender-proposal");
            let msg = Msg {
                id,
                g,
                kind: MsgKind::Proposal,
                bytes,
                sender: EXT_SENDER,
                epoch,
                payload: vec![],
                aad: vec![],
                refs: vec![],
                welcomes: vec![],
                oob_tree: None,
                external: true,
                ext_psks: vec![],
                res_psks: vec![],
                private: false,
                spec: None,
                pspec: Some(spec),
                time: w.clock,
                gen: 0,
            };
            w.msgs.insert(id, msg);
            w.groups[g].props.entry(epoch).or_default().push(id);
            w.ext.observers[k].fed.insert(id);
            let members: Vec<usize> = w.groups[g].members[&epoch].keys().copied().collect();
            for p in members {
                w.mem(p, g).inbox.push(id);
            }
            w.ext.ext_proposals.insert(id);
            Ok(true)
        }
    }
}

/// a commit, correctly signed by a real member, that refers to a proposal of an epoch the observer has left
pub fn do_obs_stale_ref(w: &mut World, k: usize, pick: u64) -> VResult<bool> {
    if k >= w.ext.observers.len() {
        return Ok(false);
    }
    let g = w.ext.observers[k].g;
    let epoch = w.ext.observers[k].group.group_context().epoch;
    let started = w.ext.observers[k].started;
    let Some(rec) = w.groups[g].records.get(&epoch).cloned() else { return Ok(false) };
    let Some(members) = w.groups[g].members.get(&epoch).cloned() else { return Ok(false) };
    // a proposal the observer accepted in an earlier epoch that needs no update path and is still applicable
    let mut cands: Vec<u64> = vec![];
    for (id, m) in &w.msgs {
        if m.g != g || m.kind != MsgKind::Proposal || m.private || m.epoch >= epoch || m.epoch < started {
            continue;
        }
        if !w.ext.observers[k].fed.contains(id) || m.sender == EXT_SENDER {
            continue;
        }
        let ok = match &m.pspec {
            Some(PropSpec::Add { q }) => !members.contains_key(q) && !rec.roster.iter().any(|(_, n, _)| *n == w.parties[*q].name),
            Some(PropSpec::Custom { .. }) => w.cfg.knob("custom-path").is_none(),
            _ => false,
        };
        if ok {
            cands.push(*id);
        }
    }
    if cands.is_empty() {
        return Ok(false);
    }
    let pid = cands[pick as usize % cands.len()];
    let Some(pref) = crate::c10::proposal_ref_of(w.cfg.suite, &w.msgs[&pid].bytes) else { return Ok(false) };
    // the signer: a member of this epoch whose leaf carries the key the harness holds
    let signer = members.iter().find(|(p, leaf)| {
        rec.roster
            .iter()
            .any(|(i, _, key)| i == *leaf && key.as_slice() == w.parties[**p].signing_identity.signature_key.as_ref())
    });
    let Some((s, sleaf)) = signer.map(|(p, l)| (*p, *l)) else { return Ok(false) };
    let mut r = crate::prng::Prng::new(crate::prng::mix(&[w.seed, w.step_no as u64, 0x57a1e]));
    let nh = crate::refmls::HashAlg::for_suite(w.cfg.suite).len();
    let (tag, mk) = (r.bytes(nh), r.bytes(nh));
    let Some(bytes) = crate::c10::build_forged(w, s, g, epoch, sleaf, &rec.ctx, &[(2u8, pref)], &mk, &tag) else {
        return Ok(false);
    };
    let prop = w.cfg.property.clone();
    let now = w.now();
    let mut grp = w.ext.observers[k].group.clone();
    let res = guarded(&prop, "observer.process_incoming_message(stale reference)", || {
        grp.process_incoming_message_with_time(MlsMessage::from_bytes(&bytes)?, now)
    })?;
    w.stats.fault("B-FORGE");
    w.stats.check("observer-rejects-stale-proposal-reference");
    match res {
        Ok(_) => Err(viol(
            w,
            "observer-rejects-invalid",
            "observer-accepted-stale-proposal-reference".into(),
            format!(
                "observer {k} at epoch {epoch} accepted a commit signed by P{s} that refers to proposal {pid} of epoch {}; members reject it (the proposal is not of this epoch)",
                w.msgs[&pid].epoch
            ),
        )),
        Err(e) => {
            let cls = err_class(&e);
            w.ev(format!("observer {k} stale-ref commit (proposal {pid}) err {cls}"));
            *w.stats.probes.entry(format!("observer-stale-ref:{cls}")).or_default() += 1;
            Ok(true)
        }
    }
}
