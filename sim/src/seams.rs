//! Application-side seams the simulator owns: group-state / key-package / PSK storage (the "disk"),
//! identity provider, MLS rules.  Each wraps the real shipped implementation and adds fault
//! injection, call counting, mirroring and forking.

use std::collections::{BTreeMap, BTreeSet};
use std::sync::{Arc, Mutex};

use mls_rs::group::proposal::Proposal;
use mls_rs::identity::basic::BasicIdentityProvider;
use mls_rs::mls_rules::{
    CommitDirection, CommitOptions, CommitSource, EncryptionOptions, ProposalBundle,
};
use mls_rs::storage_provider::in_memory::{InMemoryGroupStateStorage, InMemoryKeyPackageStorage};
use mls_rs::MlsRules;
use mls_rs_core::error::IntoAnyError;
use mls_rs_core::extension::ExtensionList;
use mls_rs::group::Roster;
use mls_rs_core::group::{EpochRecord, GroupContext, GroupState, GroupStateStorage};
use mls_rs_core::identity::{
    CredentialType, IdentityProvider, MemberValidationContext, SigningIdentity,
};
use mls_rs_core::key_package::{KeyPackageData, KeyPackageStorage};
use mls_rs_core::psk::{ExternalPskId, PreSharedKey, PreSharedKeyStorage};
use mls_rs_core::time::MlsTime;
use mls_rs_provider_sqlite::connection_strategy::MemoryStrategy;
use mls_rs_provider_sqlite::storage::{SqLiteGroupStateStorage, SqLiteKeyPackageStorage};
use mls_rs_provider_sqlite::SqLiteDataStorageEngine;
use zeroize::Zeroizing;

#[derive(Debug, Clone)]
pub struct SimError(pub String);
impl std::fmt::Display for SimError {
    fn fmt(&self, f: &mut std::fmt::Formatter<'_>) -> std::fmt::Result {
        write!(f, "{}", self.0)
    }
}
impl std::error::Error for SimError {}
impl IntoAnyError for SimError {
    fn into_dyn_error(self) -> Result<Box<dyn std::error::Error + Send + Sync>, Self> {
        Ok(Box::new(self))
    }
}
fn se<E: IntoAnyError>(err: E) -> SimError {
    SimError(format!("{:?}", err.into_any_error()))
}

pub const INJECTED: &str = "injected storage fault";

/// Fault control shared by the three stores of one party: counts calls and fails the chosen ones
/// cleanly (nothing applied, `Err` returned).
#[derive(Default, Debug, Clone)]
pub struct FaultCtl {
    pub counting: bool,
    pub calls: u32,
    pub fail_at: BTreeSet<u32>,
    pub fired: u32,
    pub log: Vec<&'static str>,
    /// violations found by a mirror comparison (C06/C19)
    pub mirror_violations: Vec<String>,
    pub total_calls: u64,
    /// one-shot: the next call of this kind fails (C07: the key-package delete of a joiner's first write)
    pub fail_what: Option<&'static str>,
}

pub type Faults = Arc<Mutex<FaultCtl>>;

fn gate(f: &Faults, what: &'static str) -> Result<(), SimError> {
    let mut f = f.lock().unwrap();
    f.total_calls += 1;
    if f.fail_what == Some(what) {
        f.fail_what = None;
        f.fired += 1;
        return Err(SimError(format!("{INJECTED} at the next {what}")));
    }
    if f.counting {
        let idx = f.calls;
        f.calls += 1;
        f.log.push(what);
        if f.fail_at.contains(&idx) {
            f.fired += 1;
            return Err(SimError(format!("{INJECTED} at call {idx} ({what})")));
        }
    }
    Ok(())
}

pub fn faults_begin(f: &Faults, fail_at: &[u32]) {
    let mut f = f.lock().unwrap();
    f.counting = true;
    f.calls = 0;
    f.fired = 0;
    f.log.clear();
    f.fail_at = fail_at.iter().copied().collect();
}

/// returns (calls made, faults fired, call log)
pub fn faults_end(f: &Faults) -> (u32, u32, Vec<&'static str>) {
    let mut f = f.lock().unwrap();
    f.counting = false;
    f.fail_at.clear();
    (f.calls, f.fired, std::mem::take(&mut f.log))
}

// ---------------------------------------------------------------------------------------------
// group state storage

#[derive(Clone, Copy, Debug, PartialEq, Eq, Hash, serde::Serialize, serde::Deserialize)]
pub enum StorageKind {
    Mem,
    Sql,
    Mirror,
}

#[derive(Clone)]
pub enum Backend {
    Mem(InMemoryGroupStateStorage),
    Sql(SqLiteGroupStateStorage),
    Mirror(InMemoryGroupStateStorage, SqLiteGroupStateStorage),
}

#[derive(Clone)]
pub struct SimGroupStorage {
    pub backend: Backend,
    pub retention: u64,
    pub faults: Faults,
    /// control of faults inside the SQLite provider (only used with the plain Sql backend)
    pub sqlctl: Arc<SqlFaultCtl>,
}

/// S-SQL-INNER: a fault *inside* the SQLite provider's write. The connection's authorizer (called by SQLite whenever
/// a statement is prepared) denies the k-th row-changing action of an armed write: the statement fails the way a
/// full disk or an I/O error fails it - after the statements before it have run.
#[derive(Default, Debug)]
pub struct SqlFaultCtl {
    pub armed: std::sync::atomic::AtomicBool,
    pub count: std::sync::atomic::AtomicU32,
    pub fail_at: std::sync::atomic::AtomicU32,
    pub fired: std::sync::atomic::AtomicU32,
}

impl SqlFaultCtl {
    pub fn arm(&self, k: u32) {
        use std::sync::atomic::Ordering::SeqCst;
        self.count.store(0, SeqCst);
        self.fired.store(0, SeqCst);
        self.fail_at.store(k, SeqCst);
        self.armed.store(true, SeqCst);
    }
    /// (row-changing actions seen, faults fired)
    pub fn disarm(&self) -> (u32, u32) {
        use std::sync::atomic::Ordering::SeqCst;
        self.armed.store(false, SeqCst);
        (self.count.load(SeqCst), self.fired.load(SeqCst))
    }
}

struct FaultyMemory(Arc<SqlFaultCtl>);

impl mls_rs_provider_sqlite::connection_strategy::ConnectionStrategy for FaultyMemory {
    fn make_connection(&self) -> Result<rusqlite::Connection, mls_rs_provider_sqlite::SqLiteDataStorageError> {
        use rusqlite::hooks::{AuthAction, Authorization};
        use std::sync::atomic::Ordering::SeqCst;
        let c = rusqlite::Connection::open_in_memory()
            .map_err(|e| mls_rs_provider_sqlite::SqLiteDataStorageError::SqlEngineError(e.into()))?;
        let ctl = self.0.clone();
        c.authorizer(Some(move |ctx: rusqlite::hooks::AuthContext<'_>| {
            let write = matches!(ctx.action, AuthAction::Insert { .. } | AuthAction::Update { .. } | AuthAction::Delete { .. });
            if write && ctl.armed.load(SeqCst) {
                let i = ctl.count.fetch_add(1, SeqCst);
                if i == ctl.fail_at.load(SeqCst) {
                    ctl.fired.fetch_add(1, SeqCst);
                    return Authorization::Deny;
                }
            }
            Authorization::Allow
        }));
        Ok(c)
    }
}

fn new_sql(retention: u64) -> SqLiteGroupStateStorage {
    new_sql_ctl(retention, Arc::new(SqlFaultCtl::default()))
}

fn new_sql_ctl(retention: u64, ctl: Arc<SqlFaultCtl>) -> SqLiteGroupStateStorage {
    SqLiteDataStorageEngine::new(FaultyMemory(ctl))
        .expect("sqlite engine")
        .group_state_storage()
        .expect("sqlite group storage")
        .with_max_epoch_retention(retention)
}

fn new_mem(retention: u64) -> InMemoryGroupStateStorage {
    InMemoryGroupStateStorage::new()
        .with_max_epoch_retention(retention as usize)
        .expect("retention > 0")
}

/// What the storage trait exposes for one group: snapshot + every epoch record by id.
#[derive(Clone, Debug, PartialEq, Eq)]
pub struct StoredView {
    pub state: Option<Vec<u8>>,
    pub max_epoch: Option<u64>,
    pub epochs: BTreeMap<u64, Vec<u8>>,
}

fn view_of<S: GroupStateStorage>(s: &S, gid: &[u8]) -> Result<StoredView, SimError> {
    let state = s.state(gid).map_err(se)?.map(|z| z.to_vec());
    let max_epoch = s.max_epoch_id(gid).map_err(se)?;
    let mut epochs = BTreeMap::new();
    if let Some(max) = max_epoch {
        // every id that could possibly be present; retention is small so scan a bounded window
        let lo = max.saturating_sub(64);
        for id in lo..=max + 2 {
            if let Some(d) = s.epoch(gid, id).map_err(se)? {
                epochs.insert(id, d.to_vec());
            }
        }
    } else {
        for id in 0..3 {
            if let Some(d) = s.epoch(gid, id).map_err(se)? {
                epochs.insert(id, d.to_vec());
            }
        }
    }
    Ok(StoredView {
        state,
        max_epoch,
        epochs,
    })
}

impl SimGroupStorage {
    pub fn new(kind: StorageKind, retention: u64, faults: Faults) -> Self {
        let sqlctl = Arc::new(SqlFaultCtl::default());
        let backend = match kind {
            StorageKind::Mem => Backend::Mem(new_mem(retention)),
            StorageKind::Sql => Backend::Sql(new_sql_ctl(retention, sqlctl.clone())),
            StorageKind::Mirror => Backend::Mirror(new_mem(retention), new_sql(retention)),
        };
        SimGroupStorage {
            backend,
            retention,
            faults,
            sqlctl,
        }
    }

    pub fn kind(&self) -> StorageKind {
        match self.backend {
            Backend::Mem(_) => StorageKind::Mem,
            Backend::Sql(_) => StorageKind::Sql,
            Backend::Mirror(..) => StorageKind::Mirror,
        }
    }

    pub fn group_ids(&self) -> Vec<Vec<u8>> {
        let mut ids = match &self.backend {
            Backend::Mem(m) | Backend::Mirror(m, _) => m.stored_groups(),
            Backend::Sql(s) => s.group_ids().unwrap_or_default(),
        };
        ids.sort();
        ids
    }

    /// the stored history of one group as visible through the trait (no fault gate, harness use)
    pub fn view(&self, gid: &[u8]) -> StoredView {
        match &self.backend {
            Backend::Mem(m) | Backend::Mirror(m, _) => view_of(m, gid).expect("mem view"),
            Backend::Sql(s) => view_of(s, gid).expect("sql view"),
        }
    }

    pub fn view_sql(&self, gid: &[u8]) -> Option<StoredView> {
        match &self.backend {
            Backend::Mirror(_, s) | Backend::Sql(s) => Some(view_of(s, gid).expect("sql view")),
            _ => None,
        }
    }

    /// Independent deep copy (re-materialised through the trait into fresh provider instances).
    pub fn fork(&self, faults: Faults) -> SimGroupStorage {
        let out = SimGroupStorage::new(self.kind(), self.retention, faults);
        for gid in self.group_ids() {
            let v = self.view(&gid);
            if let Some(state) = v.state {
                let inserts: Vec<EpochRecord> = v
                    .epochs
                    .iter()
                    .map(|(id, d)| EpochRecord::new(*id, Zeroizing::new(d.clone())))
                    .collect();
                let gs = GroupState {
                    id: gid.clone(),
                    data: Zeroizing::new(state),
                };
                match &out.backend {
                    Backend::Mem(m) => {
                        m.clone().write(gs, inserts, vec![]).expect("fork mem");
                    }
                    Backend::Sql(s) => {
                        s.clone().write(gs, inserts, vec![]).expect("fork sql");
                    }
                    Backend::Mirror(m, s) => {
                        m.clone()
                            .write(gs.clone(), inserts.clone(), vec![])
                            .expect("fork mem");
                        s.clone().write(gs, inserts, vec![]).expect("fork sql");
                    }
                }
            }
        }
        out
    }

    /// overwrite the stored snapshot of a group (S-FLIP fault); epochs untouched
    pub fn corrupt_state(&self, gid: &[u8], f: impl Fn(&mut Vec<u8>)) -> bool {
        let v = self.view(gid);
        let Some(mut st) = v.state else { return false };
        f(&mut st);
        let gs = GroupState {
            id: gid.to_vec(),
            data: Zeroizing::new(st),
        };
        match &self.backend {
            Backend::Mem(m) => m.clone().write(gs, vec![], vec![]).is_ok(),
            Backend::Sql(s) => s.clone().write(gs, vec![], vec![]).is_ok(),
            Backend::Mirror(m, s) => {
                m.clone().write(gs.clone(), vec![], vec![]).is_ok()
                    && s.clone().write(gs, vec![], vec![]).is_ok()
            }
        }
    }

    /// overwrite one stored epoch record (S-FLIP fault)
    pub fn corrupt_epoch(&self, gid: &[u8], id: u64, f: impl Fn(&mut Vec<u8>)) -> bool {
        let v = self.view(gid);
        let (Some(st), Some(ep)) = (v.state, v.epochs.get(&id)) else {
            return false;
        };
        let mut ep = ep.clone();
        f(&mut ep);
        let gs = GroupState {
            id: gid.to_vec(),
            data: Zeroizing::new(st),
        };
        let upd = vec![EpochRecord::new(id, Zeroizing::new(ep))];
        match &self.backend {
            Backend::Mem(m) => m.clone().write(gs, vec![], upd).is_ok(),
            Backend::Sql(s) => s.clone().write(gs, vec![], upd).is_ok(),
            Backend::Mirror(m, s) => {
                m.clone().write(gs.clone(), vec![], upd.clone()).is_ok()
                    && s.clone().write(gs, vec![], upd).is_ok()
            }
        }
    }

    fn mirror_check(&self, gid: &[u8], what: &str) {
        if let Backend::Mirror(m, s) = &self.backend {
            let a = view_of(m, gid);
            let b = view_of(s, gid);
            match (a, b) {
                (Ok(a), Ok(b)) => {
                    if a != b {
                        let detail = format!(
                            "in-memory and SQLite stored history differ after {what}: mem max={:?} ids={:?} / sql max={:?} ids={:?} / state_equal={}",
                            a.max_epoch,
                            a.epochs.keys().collect::<Vec<_>>(),
                            b.max_epoch,
                            b.epochs.keys().collect::<Vec<_>>(),
                            a.state == b.state
                        );
                        self.faults.lock().unwrap().mirror_violations.push(detail);
                    }
                }
                (a, b) => self.faults.lock().unwrap().mirror_violations.push(format!(
                    "mirror view error after {what}: {:?} / {:?}",
                    a.err(),
                    b.err()
                )),
            }
        }
    }
}

impl GroupStateStorage for SimGroupStorage {
    type Error = SimError;

    fn state(&self, group_id: &[u8]) -> Result<Option<Zeroizing<Vec<u8>>>, Self::Error> {
        gate(&self.faults, "group.state")?;
        match &self.backend {
            Backend::Mem(m) => m.state(group_id).map_err(se),
            Backend::Sql(s) => s.state(group_id).map_err(se),
            Backend::Mirror(m, s) => {
                let a = m.state(group_id).map_err(se)?;
                let b = s.state(group_id).map_err(se)?;
                if a != b {
                    self.faults
                        .lock()
                        .unwrap()
                        .mirror_violations
                        .push("state() differs between in-memory and SQLite".into());
                }
                Ok(a)
            }
        }
    }

    fn epoch(
        &self,
        group_id: &[u8],
        epoch_id: u64,
    ) -> Result<Option<Zeroizing<Vec<u8>>>, Self::Error> {
        gate(&self.faults, "group.epoch")?;
        match &self.backend {
            Backend::Mem(m) => m.epoch(group_id, epoch_id).map_err(se),
            Backend::Sql(s) => s.epoch(group_id, epoch_id).map_err(se),
            Backend::Mirror(m, s) => {
                let a = m.epoch(group_id, epoch_id).map_err(se)?;
                let b = s.epoch(group_id, epoch_id).map_err(se)?;
                if a != b {
                    self.faults.lock().unwrap().mirror_violations.push(format!(
                        "epoch({epoch_id}) differs between in-memory ({}) and SQLite ({})",
                        a.is_some(),
                        b.is_some()
                    ));
                }
                Ok(a)
            }
        }
    }

    fn write(
        &mut self,
        state: GroupState,
        epoch_inserts: Vec<EpochRecord>,
        epoch_updates: Vec<EpochRecord>,
    ) -> Result<(), Self::Error> {
        gate(&self.faults, "group.write")?;
        let gid = state.id.clone();
        // what is stored for the other groups of this party must not be disturbed by this write
        let others: Vec<(Vec<u8>, StoredView)> = self
            .group_ids()
            .into_iter()
            .filter(|o| *o != gid)
            .map(|o| {
                let v = match &self.backend {
                    Backend::Sql(s) | Backend::Mirror(_, s) => view_of(s, &o),
                    Backend::Mem(m) => view_of(m, &o),
                };
                (o, v.unwrap_or(StoredView { state: None, max_epoch: None, epochs: Default::default() }))
            })
            .collect();
        let r = match &mut self.backend {
            Backend::Mem(m) => m.write(state, epoch_inserts, epoch_updates).map_err(se),
            Backend::Sql(s) => s.write(state, epoch_inserts, epoch_updates).map_err(se),
            Backend::Mirror(m, s) => {
                let a = m
                    .write(state.clone(), epoch_inserts.clone(), epoch_updates.clone())
                    .map_err(se);
                let b = s.write(state, epoch_inserts, epoch_updates).map_err(se);
                if a.is_ok() != b.is_ok() {
                    self.faults.lock().unwrap().mirror_violations.push(format!(
                        "write() outcome differs: in-memory {:?} / SQLite {:?}",
                        a.as_ref().err(),
                        b.as_ref().err()
                    ));
                }
                a.and(b)
            }
        };
        for (o, before) in others {
            let after = match &self.backend {
                Backend::Sql(s) | Backend::Mirror(_, s) => view_of(s, &o),
                Backend::Mem(m) => view_of(m, &o),
            };
            if after.ok().as_ref() != Some(&before) {
                self.faults.lock().unwrap().mirror_violations.push(format!(
                    "a write for one group changed what is stored for another group of the same party (group id {})",
                    String::from_utf8_lossy(&o)
                ));
            }
        }
        self.mirror_check(&gid, "write");
        // a write for one group must not disturb what is stored for the others
        for other in self.group_ids() {
            if other != gid {
                self.mirror_check(&other, "write of another group");
            }
        }
        r
    }

    fn max_epoch_id(&self, group_id: &[u8]) -> Result<Option<u64>, Self::Error> {
        gate(&self.faults, "group.max_epoch_id")?;
        match &self.backend {
            Backend::Mem(m) => m.max_epoch_id(group_id).map_err(se),
            Backend::Sql(s) => s.max_epoch_id(group_id).map_err(se),
            Backend::Mirror(m, s) => {
                let a = m.max_epoch_id(group_id).map_err(se)?;
                let b = s.max_epoch_id(group_id).map_err(se)?;
                if a != b {
                    self.faults.lock().unwrap().mirror_violations.push(format!(
                        "max_epoch_id differs: in-memory {a:?} / SQLite {b:?}"
                    ));
                }
                Ok(a)
            }
        }
    }
}

// ---------------------------------------------------------------------------------------------
// key package storage

#[derive(Clone)]
pub enum KpBackend {
    Mem(InMemoryKeyPackageStorage),
    Sql(SqLiteKeyPackageStorage),
}

#[derive(Clone)]
pub struct SimKpStore {
    pub backend: KpBackend,
    pub faults: Faults,
    /// ids ever inserted (so a fork of an SQLite store can enumerate them)
    pub ids: Arc<Mutex<BTreeSet<Vec<u8>>>>,
}

impl SimKpStore {
    pub fn new(sql: bool, faults: Faults) -> Self {
        let backend = if sql {
            KpBackend::Sql(
                SqLiteDataStorageEngine::new(MemoryStrategy)
                    .expect("sqlite engine")
                    .key_package_storage()
                    .expect("sqlite kp"),
            )
        } else {
            KpBackend::Mem(InMemoryKeyPackageStorage::new())
        };
        SimKpStore {
            backend,
            faults,
            ids: Default::default(),
        }
    }

    pub fn raw_get(&self, id: &[u8]) -> Option<KeyPackageData> {
        match &self.backend {
            KpBackend::Mem(m) => m.get(id),
            KpBackend::Sql(s) => KeyPackageStorage::get(s, id).ok().flatten(),
        }
    }

    pub fn present_ids(&self) -> Vec<Vec<u8>> {
        self.ids
            .lock()
            .unwrap()
            .iter()
            .filter(|id| self.raw_get(id).is_some())
            .cloned()
            .collect()
    }

    pub fn fork(&self, faults: Faults) -> SimKpStore {
        let mut out = SimKpStore::new(matches!(self.backend, KpBackend::Sql(_)), faults);
        let ids = self.ids.lock().unwrap().clone();
        for id in ids.iter() {
            if let Some(d) = self.raw_get(id) {
                match &mut out.backend {
                    KpBackend::Mem(m) => {
                        KeyPackageStorage::insert(m, id.clone(), d).expect("fork kp")
                    }
                    KpBackend::Sql(s) => {
                        KeyPackageStorage::insert(s, id.clone(), d).expect("fork kp")
                    }
                }
            }
        }
        *out.ids.lock().unwrap() = ids;
        out
    }
}

impl KeyPackageStorage for SimKpStore {
    type Error = SimError;

    fn delete(&mut self, id: &[u8]) -> Result<(), Self::Error> {
        gate(&self.faults, "kp.delete")?;
        match &mut self.backend {
            KpBackend::Mem(m) => KeyPackageStorage::delete(m, id).map_err(se),
            KpBackend::Sql(s) => KeyPackageStorage::delete(s, id).map_err(se),
        }
    }

    fn insert(&mut self, id: Vec<u8>, pkg: KeyPackageData) -> Result<(), Self::Error> {
        gate(&self.faults, "kp.insert")?;
        self.ids.lock().unwrap().insert(id.clone());
        match &mut self.backend {
            KpBackend::Mem(m) => KeyPackageStorage::insert(m, id, pkg).map_err(se),
            KpBackend::Sql(s) => KeyPackageStorage::insert(s, id, pkg).map_err(se),
        }
    }

    fn get(&self, id: &[u8]) -> Result<Option<KeyPackageData>, Self::Error> {
        gate(&self.faults, "kp.get")?;
        match &self.backend {
            KpBackend::Mem(m) => KeyPackageStorage::get(m, id).map_err(se),
            KpBackend::Sql(s) => KeyPackageStorage::get(s, id).map_err(se),
        }
    }
}

// ---------------------------------------------------------------------------------------------
// PSK store (the application's store; a plain map)

#[derive(Clone, Default)]
pub struct SimPskStore {
    /// what the application registered (the model's view: id -> value)
    pub map: Arc<Mutex<BTreeMap<Vec<u8>, Vec<u8>>>>,
    /// the store the library reads in the worlds that replace PSK values (C18): the in-memory PSK storage that ships
    /// with mls-rs (real code). Elsewhere the library reads the map above - creating the shipped store (a hash map)
    /// in every world would shift the hash-map keys, and with them the schedules, of all other properties.
    pub real: Option<mls_rs::storage_provider::in_memory::InMemoryPreSharedKeyStorage>,
    pub faults: Faults,
}

impl SimPskStore {
    pub fn new(faults: Faults, shipped_store: bool) -> Self {
        SimPskStore {
            map: Default::default(),
            real: shipped_store.then(Default::default),
            faults,
        }
    }
    pub fn put(&self, id: &[u8], value: &[u8]) {
        self.map.lock().unwrap().insert(id.to_vec(), value.to_vec());
        if let Some(real) = &self.real {
            real.clone().insert(ExternalPskId::new(id.to_vec()), PreSharedKey::new(value.to_vec()));
        }
    }
    pub fn remove(&self, id: &[u8]) {
        self.map.lock().unwrap().remove(id);
        if let Some(real) = &self.real {
            real.clone().delete(&ExternalPskId::new(id.to_vec()));
        }
    }
    pub fn peek(&self, id: &[u8]) -> Option<Vec<u8>> {
        self.map.lock().unwrap().get(id).cloned()
    }
    /// what the store hands to the library for this id (no fault gate)
    pub fn stored(&self, id: &[u8]) -> Option<Vec<u8>> {
        match &self.real {
            Some(real) => real.get(&ExternalPskId::new(id.to_vec())).map(|p| p.raw_value().to_vec()),
            None => self.peek(id),
        }
    }
    /// everything another store holds is registered here as well (a new device of the same user)
    pub fn copy_from(&self, other: &SimPskStore) {
        let all: Vec<(Vec<u8>, Vec<u8>)> = other.map.lock().unwrap().iter().map(|(k, v)| (k.clone(), v.clone())).collect();
        for (k, v) in all {
            self.put(&k, &v);
        }
    }
    pub fn fork(&self, faults: Faults) -> Self {
        let out = SimPskStore::new(faults, self.real.is_some());
        out.copy_from(self);
        out
    }
}

impl PreSharedKeyStorage for SimPskStore {
    type Error = SimError;
    fn get(&self, id: &ExternalPskId) -> Result<Option<PreSharedKey>, Self::Error> {
        gate(&self.faults, "psk.get")?;
        Ok(match &self.real {
            Some(real) => real.get(id),
            None => self.map.lock().unwrap().get(id.as_ref()).map(|v| PreSharedKey::new(v.clone())),
        })
    }
}

// ---------------------------------------------------------------------------------------------
// identity provider

#[derive(Default, Debug)]
pub struct IdCtl {
    /// identities (basic credential bytes) that validate_member rejects
    pub reject: BTreeSet<Vec<u8>>,
    pub counting: bool,
    pub calls: u32,
    pub fail_at: BTreeSet<u32>,
    pub fired: u32,
}

#[derive(Clone, Default)]
pub struct SimIdentity {
    pub inner: BasicIdentityProvider,
    pub ctl: Arc<Mutex<IdCtl>>,
}

impl SimIdentity {
    fn gate(&self) -> Result<(), SimError> {
        let mut c = self.ctl.lock().unwrap();
        if c.counting {
            let i = c.calls;
            c.calls += 1;
            if c.fail_at.contains(&i) {
                c.fired += 1;
                return Err(SimError(format!("injected identity provider error at call {i}")));
            }
        }
        Ok(())
    }
}

impl IdentityProvider for SimIdentity {
    type Error = SimError;

    fn validate_member(
        &self,
        signing_identity: &SigningIdentity,
        timestamp: Option<MlsTime>,
        context: MemberValidationContext<'_>,
    ) -> Result<(), Self::Error> {
        self.gate()?;
        if let Some(b) = signing_identity.credential.as_basic() {
            if self.ctl.lock().unwrap().reject.contains(&b.identifier) {
                return Err(SimError("credential rejected by application".into()));
            }
        }
        self.inner
            .validate_member(signing_identity, timestamp, context)
            .map_err(se)
    }

    fn validate_external_sender(
        &self,
        signing_identity: &SigningIdentity,
        timestamp: Option<MlsTime>,
        extensions: Option<&ExtensionList>,
    ) -> Result<(), Self::Error> {
        self.gate()?;
        self.inner
            .validate_external_sender(signing_identity, timestamp, extensions)
            .map_err(se)
    }

    fn identity(
        &self,
        signing_identity: &SigningIdentity,
        extensions: &ExtensionList,
    ) -> Result<Vec<u8>, Self::Error> {
        self.inner.identity(signing_identity, extensions).map_err(se)
    }

    fn valid_successor(
        &self,
        predecessor: &SigningIdentity,
        successor: &SigningIdentity,
        extensions: &ExtensionList,
    ) -> Result<bool, Self::Error> {
        self.inner
            .valid_successor(predecessor, successor, extensions)
            .map_err(se)
    }

    fn supported_types(&self) -> Vec<CredentialType> {
        self.inner.supported_types()
    }
}

// ---------------------------------------------------------------------------------------------
// rules

#[derive(Clone, Debug)]
pub struct RulesCfg {
    pub commit: CommitOptions,
    pub encrypt: EncryptionOptions,
    pub fail_filter: bool,
    pub custom_needs_path: bool,
    /// this device's client does not register the custom group-context extension type (C10: capabilities)
    pub legacy: bool,
}

impl Default for RulesCfg {
    fn default() -> Self {
        RulesCfg {
            commit: CommitOptions::default(),
            encrypt: EncryptionOptions::default(),
            fail_filter: false,
            custom_needs_path: true,
            legacy: false,
        }
    }
}

#[derive(Clone, Default)]
pub struct SimRules {
    pub cfg: Arc<Mutex<RulesCfg>>,
}

impl MlsRules for SimRules {
    type Error = SimError;

    fn filter_proposals(
        &self,
        _direction: CommitDirection,
        _source: CommitSource,
        _current_roster: &Roster,
        _current_context: &GroupContext,
        proposals: ProposalBundle,
    ) -> Result<ProposalBundle, Self::Error> {
        if self.cfg.lock().unwrap().fail_filter {
            return Err(SimError("injected rules error".into()));
        }
        Ok(proposals)
    }

    fn commit_options(
        &self,
        _: &Roster,
        _: &GroupContext,
        _: &ProposalBundle,
    ) -> Result<CommitOptions, Self::Error> {
        Ok(self.cfg.lock().unwrap().commit)
    }

    fn encryption_options(
        &self,
        _: &Roster,
        _: &GroupContext,
    ) -> Result<EncryptionOptions, Self::Error> {
        Ok(self.cfg.lock().unwrap().encrypt)
    }

    fn custom_proposal_requires_update_path(
        &self,
        _custom_proposal_type: mls_rs_core::group::ProposalType,
    ) -> bool {
        self.cfg.lock().unwrap().custom_needs_path
    }
}

#[allow(dead_code)]
fn _unused(_: Option<Proposal>) {}
