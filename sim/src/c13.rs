//! C13: the reference model of the key schedule, PSK chain, transcript hashes, tags, secret tree and message
//! keys (RFC 9420 §6.1, §6.3.2, §8, §9) run in lock-step with every simulated epoch. The inputs are what
//! real histories produce; the formulas are evaluated by `refmls` on bare sha2/hmac.

use std::collections::BTreeMap;

use mls_rs::{CipherSuiteProvider, MlsMessage};

use crate::crypto::Ev;
use crate::refmls::{put_vec, HashAlg, Rd, Tree};
use crate::types::*;
use crate::world::*;

#[derive(Clone, Debug, Default)]
pub struct RefEpoch {
    pub joiner: Vec<u8>,
    pub welcome: Vec<u8>,
    pub epoch: Vec<u8>,
    pub sender_data: Vec<u8>,
    pub encryption: Vec<u8>,
    pub exporter: Vec<u8>,
    pub external: Vec<u8>,
    pub confirm: Vec<u8>,
    pub membership: Vec<u8>,
    pub resumption: Vec<u8>,
    pub authentication: Vec<u8>,
    pub init: Vec<u8>,
}

#[derive(Clone, Debug, Default)]
pub struct FromWelcome {
    pub joiner_secret: Vec<u8>,
    pub path_secret: Option<Vec<u8>>,
    /// raw PreSharedKeyID structures with their parsed parts
    pub psks: Vec<PskId>,
    pub joiner_party: usize,
    pub seals: Vec<(Vec<u8>, Vec<u8>)>,
}

#[derive(Clone, Debug)]
pub struct PskId {
    pub raw: Vec<u8>,
    pub external_id: Option<Vec<u8>>,
    pub resumption: Option<(u8, Vec<u8>, u64)>,
}

#[derive(Default)]
pub struct C13State {
    /// canonical H2 secrets per (group, epoch): name -> bytes
    pub h2: BTreeMap<(usize, u64), BTreeMap<String, Vec<u8>>>,
    pub from_welcome: BTreeMap<u64, FromWelcome>,
    pub refs: BTreeMap<(usize, u64), RefEpoch>,
}

fn sizes(cs: u16) -> (usize, usize) {
    // (Nk, Nn)
    match cs {
        1 | 2 => (16, 12),
        _ => (32, 12),
    }
}

pub fn derive_epoch(alg: HashAlg, joiner: &[u8], psk_secret: &[u8], ctx: &[u8]) -> RefEpoch {
    let nh = alg.len();
    let member = alg.extract(joiner, psk_secret);
    let welcome = alg.derive_secret(&member, "welcome");
    let epoch = alg.expand_with_label(&member, "epoch", ctx, nh);
    let d = |l: &str| alg.derive_secret(&epoch, l);
    RefEpoch {
        joiner: joiner.to_vec(),
        welcome,
        sender_data: d("sender data"),
        encryption: d("encryption"),
        exporter: d("exporter"),
        external: d("external"),
        confirm: d("confirm"),
        membership: d("membership"),
        resumption: d("resumption"),
        authentication: d("authentication"),
        init: d("init"),
        epoch,
    }
}

/// PSK secret chain (RFC 9420 §8.4)
pub fn psk_secret(alg: HashAlg, psks: &[(Vec<u8>, Vec<u8>)]) -> Vec<u8> {
    // psks: (raw PreSharedKeyID, value)
    let nh = alg.len();
    let mut acc = vec![0u8; nh];
    let n = psks.len() as u16;
    for (i, (id, value)) in psks.iter().enumerate() {
        let extracted = alg.extract(&vec![0u8; nh], value);
        let mut label = id.clone();
        label.extend_from_slice(&(i as u16).to_be_bytes());
        label.extend_from_slice(&n.to_be_bytes());
        let input = alg.expand_with_label(&extracted, "derived psk", &label, nh);
        acc = alg.extract(&input, &acc);
    }
    acc
}

/// key and nonce of generation `generation` of a leaf's handshake / application ratchet (RFC 9420 §9)
pub fn message_key(alg: HashAlg, encryption: &[u8], n_leaves: u32, leaf: u32, app: bool, generation: u32, nk: usize, nn: usize) -> (Vec<u8>, Vec<u8>) {
    let nh = alg.len();
    // secret tree: walk from the root to the leaf
    let mut secret = encryption.to_vec();
    let (mut lo, mut hi) = (0u32, n_leaves);
    while hi - lo > 1 {
        let mid = (lo + hi) / 2;
        if leaf < mid {
            secret = alg.expand_with_label(&secret, "tree", b"left", nh);
            hi = mid;
        } else {
            secret = alg.expand_with_label(&secret, "tree", b"right", nh);
            lo = mid;
        }
    }
    let mut ratchet = alg.expand_with_label(&secret, if app { "application" } else { "handshake" }, &[], nh);
    for j in 0..generation {
        ratchet = alg.expand_with_label(&ratchet, "secret", &j.to_be_bytes(), nh);
    }
    let key = alg.expand_with_label(&ratchet, "key", &generation.to_be_bytes(), nk);
    let nonce = alg.expand_with_label(&ratchet, "nonce", &generation.to_be_bytes(), nn);
    (key, nonce)
}

/// MLS-Exporter (RFC 9420 §8.5)
pub fn export(alg: HashAlg, exporter: &[u8], label: &[u8], ctx: &[u8], len: usize) -> Vec<u8> {
    let mut info_label = b"MLS 1.0 ".to_vec();
    info_label.extend_from_slice(label);
    // DeriveSecret(exporter, label) then ExpandWithLabel(., "exported", Hash(context), len)
    let mut info = vec![];
    info.extend_from_slice(&(alg.len() as u16).to_be_bytes());
    put_vec(&mut info, &info_label);
    put_vec(&mut info, &[]);
    let derived = alg.expand(exporter, &info, alg.len());
    alg.expand_with_label(&derived, "exported", &alg.hash(ctx), len)
}

pub fn aead_sizes(cs: u16) -> (usize, usize) {
    sizes(cs)
}

fn parse_psk_ids(b: &[u8]) -> Vec<PskId> {
    let mut r = Rd::new(b);
    let mut out = vec![];
    while r.left() > 0 {
        let start = r.pos;
        let Ok(t) = r.u8() else { break };
        let mut external_id = None;
        let mut resumption = None;
        match t {
            1 => {
                let Ok(id) = r.vec() else { break };
                external_id = Some(id.to_vec());
            }
            2 => {
                let (Ok(usage), Ok(gid), Ok(ep)) = (r.u8(), r.vec().map(|v| v.to_vec()), r.u64()) else {
                    break;
                };
                resumption = Some((usage, gid, ep));
            }
            _ => break,
        }
        if r.vec().is_err() {
            break;
        }
        out.push(PskId {
            raw: r.b[start..r.pos].to_vec(),
            external_id,
            resumption,
        });
    }
    out
}

fn parse_h2(v: Vec<(&'static str, Vec<u8>)>) -> BTreeMap<String, Vec<u8>> {
    let mut m = BTreeMap::new();
    for (name, bytes) in v {
        match name {
            "key_schedule" => {
                let mut r = Rd::new(&bytes);
                for n in ["exporter", "authentication", "external", "membership", "init"] {
                    if let Ok(x) = r.vec() {
                        m.insert(n.to_string(), x.to_vec());
                    }
                }
            }
            "confirmation_tag" | "interim_transcript_hash" => {
                let mut r = Rd::new(&bytes);
                if let Ok(x) = r.vec() {
                    m.insert(name.to_string(), x.to_vec());
                }
            }
            _ => {
                m.insert(name.to_string(), bytes);
            }
        }
    }
    m
}

fn viol(w: &World, oracle: &str, sig: String, detail: String) -> Violation {
    Violation::new(&w.cfg.property, oracle, sig, detail)
}

/// parse a GroupContext: returns (confirmed_transcript_hash, tree_hash)
fn parse_ctx(ctx: &[u8]) -> Option<(Vec<u8>, Vec<u8>)> {
    let mut r = Rd::new(ctx);
    r.u16().ok()?;
    r.u16().ok()?;
    r.vec().ok()?;
    r.u64().ok()?;
    let th = r.vec().ok()?.to_vec();
    let cth = r.vec().ok()?.to_vec();
    Some((cth, th))
}

/// does the encoded GroupContext list an extension of this type?
pub fn ctx_has_extension(ctx: &[u8], ext_type: u16) -> bool {
    let mut r = Rd::new(ctx);
    let exts = (|| -> Option<Vec<u8>> {
        r.u16().ok()?;
        r.u16().ok()?;
        r.vec().ok()?;
        r.u64().ok()?;
        r.vec().ok()?;
        r.vec().ok()?;
        Some(r.vec().ok()?.to_vec())
    })();
    let Some(exts) = exts else { return false };
    let mut er = Rd::new(&exts);
    while er.left() > 0 {
        let Ok(t) = er.u16() else { return false };
        if er.vec().is_err() {
            return false;
        }
        if t == ext_type {
            return true;
        }
    }
    false
}

/// offsets inside a PublicMessage wrapped in MLSMessage: (end of FramedContent, end of signature, end of
/// confirmation tag if any, sender is member)
pub struct PubLayout {
    pub content_end: usize,
    pub sig_end: usize,
    pub auth_end: usize,
    pub member_sender: bool,
    pub is_commit: bool,
    /// offset of the content (application data / Proposal / Commit) inside the message
    pub body_start: usize,
}

pub fn public_layout(b: &[u8]) -> Option<PubLayout> {
    let mut r = Rd::new(b);
    r.u16().ok()?; // version
    if r.u16().ok()? != 1 {
        return None; // not mls_public_message
    }
    r.vec().ok()?; // group id
    r.u64().ok()?;
    let st = r.u8().ok()?;
    match st {
        1 | 2 => {
            r.u32().ok()?;
        }
        _ => {}
    }
    r.vec().ok()?; // authenticated data
    let ct = r.u8().ok()?;
    let body_start = r.pos;
    match ct {
        1 => {
            r.vec().ok()?;
        }
        2 => {
            skip_proposal(&mut r)?;
        }
        3 => {
            r.vec().ok()?; // proposals
            if r.u8().ok()? == 1 {
                skip_leaf(&mut r)?;
                r.vec().ok()?;
            }
        }
        _ => return None,
    }
    let content_end = r.pos;
    r.vec().ok()?; // signature
    let sig_end = r.pos;
    if ct == 3 {
        r.vec().ok()?;
    }
    let auth_end = r.pos;
    Some(PubLayout {
        content_end,
        sig_end,
        auth_end,
        member_sender: st == 1,
        is_commit: ct == 3,
        body_start,
    })
}

/// skip one Proposal structure (type + body); returns the type and the byte range of the body. Only the types the
/// simulator produces are laid out here.
pub fn skip_proposal(r: &mut Rd) -> Option<(u16, usize, usize)> {
    let pt = r.u16().ok()?;
    let start = r.pos;
    match pt {
        1 => {
            // add: KeyPackage { version, cipher_suite, init_key<V>, leaf_node, extensions<V>, signature<V> }
            r.u16().ok()?;
            r.u16().ok()?;
            r.vec().ok()?;
            skip_leaf(r)?;
            r.vec().ok()?;
            r.vec().ok()?;
        }
        2 => skip_leaf(r)?,
        3 => {
            r.u32().ok()?;
        }
        4 => {
            // psk: PreSharedKeyID
            let t = r.u8().ok()?;
            if t == 1 {
                r.vec().ok()?;
            } else {
                r.u8().ok()?;
                r.vec().ok()?;
                r.u64().ok()?;
            }
            r.vec().ok()?;
        }
        5 => {
            r.vec().ok()?;
            r.u16().ok()?;
            r.u16().ok()?;
            r.vec().ok()?;
        }
        6 => {
            r.vec().ok()?;
        }
        7 => {
            r.vec().ok()?;
        }
        0xF003 => {} // self-remove: empty body
        x if x >= 0xF000 => {
            r.vec().ok()?;
        }
        _ => return None,
    }
    Some((pt, start, r.pos))
}

/// the PreSharedKeyIDs a public commit injects, in the order of its proposals (RFC 9420 §8.4); by-reference
/// proposals are looked up among the public proposals of the commit's epoch. None when something cannot be read.
pub fn commit_psk_ids(w: &World, msg: &Msg) -> Option<Vec<PskId>> {
    if msg.private {
        return None;
    }
    let l = public_layout(&msg.bytes)?;
    if !l.is_commit {
        return None;
    }
    let mut r = Rd::new(&msg.bytes[..l.content_end]);
    r.pos = l.body_start;
    let list = r.vec().ok()?;
    let mut lr = Rd::new(list);
    let mut out = vec![];
    while lr.left() > 0 {
        match lr.u8().ok()? {
            1 => {
                let (pt, a, b) = skip_proposal(&mut lr)?;
                if pt == 4 {
                    out.extend(parse_psk_ids(&list[a..b]));
                }
            }
            2 => {
                let pref = lr.vec().ok()?.to_vec();
                let props = w.groups[msg.g].props.get(&msg.epoch)?;
                let mut found = false;
                for pid in props {
                    let pm = &w.msgs[pid];
                    if pm.private {
                        continue;
                    }
                    if crate::c10::proposal_ref_of(w.cfg.suite, &pm.bytes).as_deref() != Some(&pref[..]) {
                        continue;
                    }
                    let pl = public_layout(&pm.bytes)?;
                    let mut pr = Rd::new(&pm.bytes[..pl.content_end]);
                    pr.pos = pl.body_start;
                    let (pt, a, b) = skip_proposal(&mut pr)?;
                    if pt == 4 {
                        out.extend(parse_psk_ids(&pm.bytes[a..b]));
                    }
                    found = true;
                    break;
                }
                if !found {
                    return None;
                }
            }
            _ => return None,
        }
    }
    Some(out)
}

fn skip_leaf(r: &mut Rd) -> Option<()> {
    r.vec().ok()?;
    r.vec().ok()?;
    r.u16().ok()?;
    r.vec().ok()?;
    for _ in 0..5 {
        r.vec().ok()?;
    }
    match r.u8().ok()? {
        1 => {
            r.u64().ok()?;
            r.u64().ok()?;
        }
        2 => {}
        3 => {
            r.vec().ok()?;
        }
        _ => return None,
    }
    r.vec().ok()?;
    r.vec().ok()?;
    Some(())
}

fn on(w: &World) -> bool {
    w.cfg.oracle("kdf-model")
}

/// a commit was built by p: open the GroupSecrets of one joiner with the joiner's init key (the harness owns
/// every party's stores) and remember joiner secret, path secret and PSK ids
pub fn after_commit_built(w: &mut World, p: usize, g: usize, id: u64, events: &[Ev]) -> VResult<()> {
    if !on(w) {
        return Ok(());
    }
    let msg = w.msgs[&id].clone();
    let seals: Vec<(Vec<u8>, Vec<u8>)> = events
        .iter()
        .filter_map(|e| match e {
            Ev::AeadSeal { key, nonce, party, .. } if *party as usize == p => Some((key.clone(), nonce.clone())),
            _ => None,
        })
        .collect();
    check_membership_tag(w, g, id)?;
    check_message_keys(w, p, g, id, &seals)?;
    let Some((q, wb)) = msg.welcomes.first().cloned() else {
        return Ok(());
    };
    // Welcome layout
    let mut r = Rd::new(&wb);
    let parsed = (|| -> Option<(Vec<(Vec<u8>, Vec<u8>, Vec<u8>)>, Vec<u8>)> {
        r.u16().ok()?;
        if r.u16().ok()? != 3 {
            return None;
        }
        r.u16().ok()?;
        let secrets = r.vec().ok()?;
        let egi = r.vec().ok()?.to_vec();
        let mut sr = Rd::new(secrets);
        let mut out = vec![];
        while sr.left() > 0 {
            let kref = sr.vec().ok()?.to_vec();
            let kem = sr.vec().ok()?.to_vec();
            let ct = sr.vec().ok()?.to_vec();
            out.push((kref, kem, ct));
        }
        Some((out, egi))
    })();
    let Some((entries, egi)) = parsed else {
        return Err(viol(w, "welcome-layout", "welcome-not-parseable".into(), format!("Welcome of commit {id} does not follow the RFC layout")));
    };
    // find the entry of joiner q
    for (kref, kem, ct) in entries {
        let Some((owner, kp_bytes)) = w.kp_owner.get(&kref).cloned() else { continue };
        if owner != q {
            continue;
        }
        let Some(data) = w.parties[q].kpstore.raw_get(&kref) else { continue };
        let Ok(kpm) = MlsMessage::from_bytes(&kp_bytes) else { continue };
        let Some(kp) = kpm.into_key_package() else { continue };
        let mut info = vec![];
        put_vec(&mut info, b"MLS 1.0 Welcome");
        put_vec(&mut info, &egi);
        let csp = w.csp(q);
        let hct = mls_rs::crypto::HpkeCiphertext {
            kem_output: kem,
            ciphertext: ct,
        };
        let opened = csp.hpke_open(&hct, &data.init_key, &kp.hpke_init_key, &info, None);
        let Ok(gs) = opened else {
            return Err(viol(
                w,
                "welcome-group-secrets",
                "group-secrets-not-openable".into(),
                format!("the GroupSecrets for joiner P{q} in the Welcome of commit {id} cannot be opened with EncryptWithLabel(\"Welcome\", encrypted_group_info)"),
            ));
        };
        let mut r = Rd::new(&gs);
        let joiner_secret = r.vec().map(|v| v.to_vec()).unwrap_or_default();
        let path_secret = match r.u8() {
            Ok(1) => r.vec().ok().map(|v| v.to_vec()),
            _ => None,
        };
        let psks = r.vec().map(parse_psk_ids).unwrap_or_default();
        w.stats.probe("group-secrets-opened-by-harness");
        w.ext.c13.from_welcome.insert(
            id,
            FromWelcome {
                joiner_secret,
                path_secret,
                psks,
                joiner_party: q,
                seals: seals.clone(),
            },
        );
        break;
    }
    Ok(())
}

/// proposals and application messages
pub fn after_sent(w: &mut World, p: usize, g: usize, id: u64, events: &[Ev]) -> VResult<()> {
    if !on(w) {
        return Ok(());
    }
    let seals: Vec<(Vec<u8>, Vec<u8>)> = events
        .iter()
        .filter_map(|e| match e {
            Ev::AeadSeal { key, nonce, party, .. } if *party as usize == p => Some((key.clone(), nonce.clone())),
            _ => None,
        })
        .collect();
    check_membership_tag(w, g, id)?;
    check_message_keys(w, p, g, id, &seals)
}

/// membership tag of a public message from a member (RFC 9420 §6.2)
fn check_membership_tag(w: &mut World, g: usize, id: u64) -> VResult<()> {
    let msg = w.msgs[&id].clone();
    if msg.private || msg.external {
        return Ok(());
    }
    let Some(l) = public_layout(&msg.bytes) else {
        w.stats.probe("public-message-layout-not-modelled");
        return Ok(());
    };
    if !l.member_sender {
        return Ok(());
    }
    let alg = HashAlg::for_suite(w.cfg.suite);
    let (Some(h2), Some(rec)) = (w.ext.c13.h2.get(&(g, msg.epoch)), w.groups[g].records.get(&msg.epoch)) else {
        return Ok(());
    };
    let Some(mk) = h2.get("membership") else { return Ok(()) };
    // AuthenticatedContentTBM = FramedContentTBS (version, wire_format, content, context) || FramedContentAuthData
    let mut tbm = msg.bytes[0..4].to_vec();
    tbm.extend_from_slice(&msg.bytes[4..l.content_end]);
    tbm.extend_from_slice(&rec.ctx);
    tbm.extend_from_slice(&msg.bytes[l.content_end..l.auth_end]);
    let want = alg.hmac(mk, &tbm);
    let mut r = Rd::new(&msg.bytes[l.auth_end..]);
    let got = r.vec().map(|v| v.to_vec()).unwrap_or_default();
    w.stats.check("membership-tag-equals-reference");
    if got != want {
        return Err(viol(
            w,
            "membership-tag",
            "membership-tag-differs".into(),
            format!("public message {id} of epoch {}: membership tag differs from MAC(membership_key, AuthenticatedContentTBM) computed by the reference model", msg.epoch),
        ));
    }
    Ok(())
}

/// key and nonce of a PrivateMessage and of its sender data (RFC 9420 §6.3, §9)
fn check_message_keys(w: &mut World, p: usize, g: usize, id: u64, seals: &[(Vec<u8>, Vec<u8>)]) -> VResult<()> {
    let msg = w.msgs[&id].clone();
    if !msg.private {
        return Ok(());
    }
    let Some(re) = w.ext.c13.refs.get(&(g, msg.epoch)).cloned() else {
        w.stats.probe("private-message-in-epoch-without-reference");
        return Ok(());
    };
    let Some(rec) = w.groups[g].records.get(&msg.epoch) else { return Ok(()) };
    let Ok(tree) = Tree::parse(&rec.tree) else { return Ok(()) };
    let Some(leaf) = w.groups[g].members.get(&msg.epoch).and_then(|m| m.get(&p)).copied() else {
        return Ok(());
    };
    if w.ext.rolled_back.contains(&(p, g, msg.epoch)) {
        return Ok(());
    }
    let alg = HashAlg::for_suite(w.cfg.suite);
    let (nk, nn) = sizes(w.cfg.suite);
    let app = msg.kind == MsgKind::App;
    let generation = msg.gen;
    let (key, nonce) = message_key(alg, &re.encryption, tree.full_leaves(), leaf, app, generation, nk, nn);
    w.stats.check("message-key-equals-reference");
    let found = seals
        .iter()
        .any(|(k, n)| *k == key && n.len() == nonce.len() && n[4..] == nonce[4..]);
    if !found {
        if std::env::var("VERIF_DEBUG").is_ok() {
            eprintln!("expected key {} nonce {}", hex::encode(&key), hex::encode(&nonce));
            for (k, n) in seals {
                eprintln!("  seal key {} nonce {}", hex::encode(k), hex::encode(n));
            }
        }
        return Err(viol(
            w,
            "message-key",
            format!("message-key-differs:{:?}", msg.kind),
            format!(
                "P{p} (leaf {leaf}) encrypted {:?} message {id} of epoch {} (generation {generation} by the model): no AEAD call used the key / nonce the reference secret tree gives for (tree of {} leaves, leaf, type, generation)",
                msg.kind,
                msg.epoch,
                tree.full_leaves()
            ),
        ));
    }
    // sender data key / nonce from the ciphertext sample
    let mut r = Rd::new(&msg.bytes);
    let ct = (|| -> Option<Vec<u8>> {
        r.u16().ok()?;
        r.u16().ok()?;
        r.vec().ok()?;
        r.u64().ok()?;
        r.u8().ok()?;
        r.vec().ok()?;
        r.vec().ok()?;
        Some(r.vec().ok()?.to_vec())
    })();
    if let Some(ct) = ct {
        let sample = &ct[..alg.len().min(ct.len())];
        let sk = alg.expand_with_label(&re.sender_data, "key", sample, nk);
        let sn = alg.expand_with_label(&re.sender_data, "nonce", sample, nn);
        w.stats.check("sender-data-key-equals-reference");
        if !seals.iter().any(|(k, n)| *k == sk && *n == sn) {
            return Err(viol(
                w,
                "sender-data-key",
                "sender-data-key-differs".into(),
                format!("P{p} message {id}: no AEAD call used the sender-data key / nonce derived from the ciphertext sample by the reference model"),
            ));
        }
    }
    Ok(())
}

/// member p reached an epoch: compare its secrets with the canonical ones and with the reference model
pub fn on_epoch(w: &mut World, p: usize, g: usize, how: &str) -> VResult<()> {
    if !on(w) {
        return Ok(());
    }
    let group = w.parties[p].mems[g].group.clone().expect("group");
    let epoch = group.current_epoch();
    let h2 = parse_h2(group.verif_secrets().unwrap_or_default());
    let alg = HashAlg::for_suite(w.cfg.suite);
    // every member holds the same secrets
    let first = !w.ext.c13.h2.contains_key(&(g, epoch));
    if first {
        w.ext.c13.h2.insert((g, epoch), h2.clone());
    } else {
        let canon = w.ext.c13.h2[&(g, epoch)].clone();
        for (k, v) in &canon {
            if h2.get(k) != Some(v) {
                return Err(viol(
                    w,
                    "secrets-agree",
                    format!("secret-differs:{k}"),
                    format!("P{p} epoch {epoch} via {how}: its `{k}` secret differs from the first member's"),
                ));
            }
        }
        return Ok(());
    }
    if epoch == 0 {
        return Ok(());
    }
    let Some(cid) = w.groups[g].log.get(epoch as usize - 1).copied() else { return Ok(()) };
    let msg = w.msgs[&cid].clone();
    let rec = w.groups[g].records[&epoch].clone();
    let Some((cth, _th)) = parse_ctx(&rec.ctx) else { return Ok(()) };
    let prev = w.ext.c13.h2.get(&(g, epoch - 1)).cloned();
    // transcript hashes (public commits only: the reference needs the FramedContent bytes)
    if let (false, Some(prev), Some(l)) = (msg.private, &prev, public_layout(&msg.bytes)) {
        if let Some(interim_prev) = prev.get("interim_transcript_hash") {
            let mut input = interim_prev.clone();
            input.extend_from_slice(&msg.bytes[2..l.sig_end]);
            let want = alg.hash(&input);
            w.stats.check("confirmed-transcript-hash-equals-reference");
            if want != cth {
                return Err(viol(
                    w,
                    "transcript-hash",
                    "confirmed-transcript-hash-differs".into(),
                    format!("epoch {epoch} of g{g}: confirmed_transcript_hash in the group context differs from H(interim[{}] || wire_format || FramedContent || signature) of commit {cid}", epoch - 1),
                ));
            }
        }
    }
    // interim transcript hash and confirmation tag from this member's own values
    if let (Some(tag), Some(interim)) = (h2.get("confirmation_tag"), h2.get("interim_transcript_hash")) {
        let mut input = cth.clone();
        put_vec(&mut input, tag);
        w.stats.check("interim-transcript-hash-equals-reference");
        if alg.hash(&input) != *interim {
            return Err(viol(
                w,
                "transcript-hash",
                "interim-transcript-hash-differs".into(),
                format!("epoch {epoch}: interim_transcript_hash differs from H(confirmed_transcript_hash || confirmation_tag<V>)"),
            ));
        }
    }
    // joiner secret: from the Welcome (opened by the harness) and / or from the previous init secret
    let fw = w.ext.c13.from_welcome.get(&cid).cloned();
    let has_path = w.ext.commit_has_path.get(&cid).copied().unwrap_or(true);
    let no_psk_in_model = msg.ext_psks.is_empty() && msg.res_psks.is_empty() && msg.refs.iter().all(|r| {
        !matches!(w.msgs[r].pspec, Some(PropSpec::ExtPsk { .. }) | Some(PropSpec::ResPsk { .. }))
    });
    // psk secret
    let mut psk = vec![0u8; alg.len()];
    let mut psk_known = no_psk_in_model;
    // the PSK ids as the commit itself lists them (by value and by reference, in proposal order)
    let from_commit = commit_psk_ids(w, &msg);
    if let (Some(fw), Some(ids)) = (&fw, &from_commit) {
        w.stats.check("welcome-psk-ids-equal-commit");
        let a: Vec<&Vec<u8>> = fw.psks.iter().map(|p| &p.raw).collect();
        let b: Vec<&Vec<u8>> = ids.iter().map(|p| &p.raw).collect();
        if a != b {
            return Err(viol(
                w,
                "psk-order",
                "welcome-psk-ids-differ-from-commit".into(),
                format!(
                    "commit {cid}: the PreSharedKeyIDs in the Welcome's GroupSecrets ({}) are not the PreSharedKeyIDs of the commit's proposals in commit order ({})",
                    a.len(),
                    b.len()
                ),
            ));
        }
    }
    let ids_known: Option<Vec<PskId>> = fw.as_ref().map(|f| f.psks.clone()).or(from_commit);
    if let Some(fw) = &fw {
        // RFC 9420 §8.4 / §12.4.3.1: the PSK list follows the order of the PSK proposals in the commit. For commits
        // whose PSKs were all given by value the simulator knows that order (externals as listed, then resumptions)
        let byref_psk = msg
            .refs
            .iter()
            .any(|r| !w.msgs[r].ext_psks.is_empty() || !w.msgs[r].res_psks.is_empty());
        if !byref_psk && msg.spec.is_some() {
            let exts: Vec<(Option<Vec<u8>>, Option<u64>)> = msg.ext_psks.iter().map(|i| (Some(vec![b'k', *i]), None)).collect();
            let ress: Vec<(Option<Vec<u8>>, Option<u64>)> = msg.res_psks.iter().map(|e| (None, Some(*e))).collect();
            let res_first = msg.spec.as_ref().map(|s| s.res_first).unwrap_or(false);
            let mut want = vec![];
            if res_first {
                want.extend(ress.clone());
            }
            want.extend(exts);
            if !res_first {
                want.extend(ress);
            }
            let got: Vec<(Option<Vec<u8>>, Option<u64>)> = fw
                .psks
                .iter()
                .map(|p| (p.external_id.clone(), p.resumption.as_ref().map(|r| r.2)))
                .collect();
            w.stats.check("psk-order-follows-commit");
            if want != got {
                return Err(viol(
                    w,
                    "psk-order",
                    "psk-list-order-differs-from-commit".into(),
                    format!(
                        "commit {cid}: the PSK ids in the Welcome's GroupSecrets ({} entries) are not in the order of the commit's PSK proposals ({} entries)",
                        got.len(),
                        want.len()
                    ),
                ));
            }
        }
    }
    if let Some(ids) = &ids_known {
        let mut vals = vec![];
        let mut ok = true;
        for id in ids {
            if let Some(ext) = &id.external_id {
                match w.parties[msg.sender].pskstore.peek(ext) {
                    Some(v) => vals.push((id.raw.clone(), v)),
                    None => ok = false,
                }
            } else if let Some((_, _gid, ep)) = &id.resumption {
                match w.ext.c13.h2.get(&(g, *ep)).and_then(|m| m.get("resumption")) {
                    Some(v) => vals.push((id.raw.clone(), v.clone())),
                    None => ok = false,
                }
            }
        }
        if ok {
            psk = psk_secret(alg, &vals);
            psk_known = true;
            if !vals.is_empty() {
                w.stats.probe("psk-chain-checked");
            }
        }
    }
    let mut joiner: Option<Vec<u8>> = fw.as_ref().map(|f| f.joiner_secret.clone());
    let init_prev = prev.as_ref().and_then(|m| m.get("init")).cloned();
    if let (Some(init_prev), false) = (&init_prev, msg.external) {
        // commit secret: zero without path; with a path, walked up from the joiner's path secret
        let commit_secret: Option<Vec<u8>> = if !has_path {
            Some(vec![0u8; alg.len()])
        } else if let (Some(fw), Ok(tree)) = (&fw, Tree::parse(&rec.tree)) {
            let cl = w.groups[g].members.get(&epoch).and_then(|m| m.get(&msg.sender)).copied();
            let jl = w.groups[g].members.get(&epoch).and_then(|m| m.get(&fw.joiner_party)).copied();
            match (&fw.path_secret, cl, jl) {
                (Some(ps), Some(cl), Some(jl)) => {
                    // nodes on the committer's direct path from the common ancestor up to the root that are non-blank
                    let cpath = tree.direct_copath(cl);
                    let mut n = 0usize;
                    for ((lo, hi), _) in &cpath {
                        if *lo <= jl && jl < *hi && tree.parent(Tree::idx(*lo, *hi)).is_some() {
                            n += 1;
                        }
                    }
                    if n == 0 {
                        None
                    } else {
                        let mut s = ps.clone();
                        for _ in 0..n {
                            s = alg.derive_secret(&s, "path");
                        }
                        Some(s)
                    }
                }
                _ => None,
            }
        } else {
            None
        };
        if let Some(cs) = commit_secret {
            let pre = alg.extract(init_prev, &cs);
            let j2 = alg.expand_with_label(&pre, "joiner", &rec.ctx, alg.len());
            match &joiner {
                Some(j) => {
                    w.stats.check("joiner-secret-equals-reference");
                    if *j != j2 {
                        return Err(viol(
                            w,
                            "key-schedule",
                            format!("joiner-secret-differs:path={has_path}"),
                            format!("epoch {epoch}: the joiner secret sent in the Welcome of commit {cid} differs from ExpandWithLabel(Extract(init_secret[{}], commit_secret), \"joiner\", GroupContext) (commit with path: {has_path})", epoch - 1),
                        ));
                    }
                    if has_path {
                        w.stats.probe("commit-secret-derived-from-path-secret");
                    }
                }
                None => joiner = Some(j2),
            }
        }
    }
    // C02: the commit secret of a commit with an update path is fresh. Whoever knew the previous init secret (every
    // member of the previous epoch, the removed ones included) must not be able to derive the new epoch from public
    // data - which they could if the commit secret were the all-zero value of a path-less commit.
    if let (true, false, true, Some(init_prev)) = (has_path, msg.external, psk_known, &init_prev) {
        let pre0 = alg.extract(init_prev, &vec![0u8; alg.len()]);
        let j0 = alg.expand_with_label(&pre0, "joiner", &rec.ctx, alg.len());
        let re0 = derive_epoch(alg, &j0, &psk, &rec.ctx);
        w.stats.check("commit-secret-of-a-path-commit-is-not-predictable");
        if h2.get("authentication") == Some(&re0.authentication) || h2.get("exporter") == Some(&re0.exporter) {
            return Err(viol(
                w,
                "key-schedule",
                "epoch-derivable-from-previous-init-secret".into(),
                format!("epoch {epoch} of g{g}: commit {cid} has an update path, yet its epoch secrets equal the key schedule run with an all-zero commit secret: every member of epoch {} (removed ones included) can derive the epoch authenticator and exporter from public data", epoch - 1),
            ));
        }
    }
    let (Some(joiner), true) = (joiner, psk_known) else {
        w.stats.probe("epoch-without-reference-joiner-secret");
        return Ok(());
    };
    let re = derive_epoch(alg, &joiner, &psk, &rec.ctx);
    w.stats.check("epoch-secrets-equal-reference");
    let pairs: Vec<(&str, &Vec<u8>)> = vec![
        ("exporter", &re.exporter),
        ("authentication", &re.authentication),
        ("external", &re.external),
        ("membership", &re.membership),
        ("init", &re.init),
        ("resumption", &re.resumption),
        ("sender_data", &re.sender_data),
    ];
    for (name, want) in pairs {
        if h2.get(name) != Some(want) {
            return Err(viol(
                w,
                "key-schedule",
                format!("epoch-secret-differs:{name}"),
                format!("epoch {epoch} of g{g} (P{p} via {how}): `{name}` differs from the value the reference key schedule derives from the joiner secret, PSK secret and group context"),
            ));
        }
    }
    // confirmation tag
    if let Some(tag) = h2.get("confirmation_tag") {
        w.stats.check("confirmation-tag-equals-reference");
        if alg.hmac(&re.confirm, &cth) != *tag {
            return Err(viol(
                w,
                "confirmation-tag",
                "confirmation-tag-differs".into(),
                format!("epoch {epoch}: confirmation tag differs from MAC(confirmation_key, confirmed_transcript_hash)"),
            ));
        }
    }
    // epoch authenticator and exported secrets (public API values in the canonical record)
    if rec.auth != re.authentication {
        return Err(viol(w, "key-schedule", "epoch-authenticator-differs".into(), format!("epoch {epoch}: epoch_authenticator() differs from the reference authentication secret")));
    }
    for k in 0..3u64 {
        let (label, ctx, len) = w.export_params(g, epoch, k);
        let want = export(alg, &re.exporter, &label, &ctx, len);
        w.stats.check("exported-secret-equals-reference");
        if rec.exports.get(k as usize) != Some(&want) {
            return Err(viol(
                w,
                "exporter",
                format!("exported-secret-differs:len={len}"),
                format!("epoch {epoch}: export_secret(label {} bytes, context {} bytes, len {len}) differs from the reference", label.len(), ctx.len()),
            ));
        }
    }
    // welcome key / nonce
    if let Some(fw) = &fw {
        let (nk, nn) = sizes(w.cfg.suite);
        let wk = alg.expand_with_label(&re.welcome, "key", &[], nk);
        let wn = alg.expand_with_label(&re.welcome, "nonce", &[], nn);
        w.stats.check("welcome-key-equals-reference");
        if !fw.seals.iter().any(|(k, n)| *k == wk && *n == wn) {
            return Err(viol(
                w,
                "welcome-key",
                "welcome-key-differs".into(),
                format!("commit {cid}: no AEAD call while building it used the welcome key / nonce the reference derives from the joiner secret"),
            ));
        }
    }
    w.ext.c13.refs.insert((g, epoch), re);
    Ok(())
}
