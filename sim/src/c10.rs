//! C10: committer-side and receiver-side proposal validation agree.
//!  * members with the same cached proposals report the same applied / unused proposals as the committer;
//!  * proposal sets with a known-by-construction violation are never committed by value, are dropped when they
//!    came in by reference, and are rejected when a (forged, correctly signed and MACed) commit carries them.

use mls_rs::group::proposal::Proposal;
use mls_rs::group::CommitMessageDescription;
use mls_rs::mls_rs_codec::MlsEncode;
use mls_rs::mls_rules::ProposalInfo;
use mls_rs::CipherSuiteProvider;

use crate::refmls::{put_vec, HashAlg};
use crate::types::*;
use crate::world::*;

fn viol(w: &World, oracle: &str, sig: String, detail: String) -> Violation {
    Violation::new(&w.cfg.property, oracle, sig, detail)
}

fn summary(list: &[ProposalInfo<Proposal>]) -> Vec<String> {
    let mut v: Vec<String> = list
        .iter()
        .map(|p| {
            let body = p.proposal.mls_encode_to_vec().unwrap_or_default();
            format!("{:?}|{}", p.sender, crate::world::short_hash(&body))
        })
        .collect();
    v.sort();
    v
}

pub fn on_commit_built(w: &mut World, p: usize, _g: usize, id: u64, unused: &[ProposalInfo<Proposal>]) -> VResult<()> {
    if !w.cfg.oracle("proposal-agreement") {
        return Ok(());
    }
    let sum = summary(unused);
    // every cached proposal that is invalid by construction (a template) must have been dropped, i.e. reported unused
    let refs = w.msgs[&id].refs.clone();
    // the legacy party (its devices do not support extension type 0xF001) and that extension exclude each other
    let cmsg = w.msgs[&id].clone();
    let (lg, lmember, lhas) = match w.legacy() {
        Some(l) => (
            Some(l),
            w.groups[cmsg.g].members.get(&cmsg.epoch).map(|m| m.contains_key(&l)).unwrap_or(false),
            w.ctx_has_f001(cmsg.g, cmsg.epoch),
        ),
        None => (None, false, false),
    };
    let gce_by_value = cmsg.spec.as_ref().map(|s| s.gce.is_some()).unwrap_or(false);
    let legacy_may_leave = cmsg.spec.as_ref().map(|s| lg.map(|l| s.removes.contains(&l)).unwrap_or(false) || s.reinit.is_some()).unwrap_or(true)
        || refs.iter().any(|r| match &w.msgs[r].pspec {
            Some(PropSpec::Remove { q }) => Some(*q) == lg,
            Some(PropSpec::SelfRemove) => Some(w.msgs[r].sender) == lg,
            _ => false,
        });
    for r in refs.clone() {
        let pm = w.msgs[&r].clone();
        let dynamic_invalid = match &pm.pspec {
            Some(PropSpec::Add { q }) if Some(*q) == lg && !lmember => lhas || gce_by_value,
            Some(PropSpec::Gce { .. }) => lmember && !lhas && !legacy_may_leave,
            _ => false,
        };
        if dynamic_invalid {
            w.stats.probe("unsupported-capabilities-by-reference");
        }
        if !(matches!(pm.pspec, Some(PropSpec::Template { .. })) || dynamic_invalid) || pm.private {
            continue;
        }
        let Some(l) = crate::c13::public_layout(&pm.bytes) else { continue };
        let h = crate::world::short_hash(&pm.bytes[l.body_start..l.content_end]);
        w.stats.check("invalid-by-reference-proposal-reported-unused");
        if !sum.iter().any(|s| s.ends_with(&format!("|{h}"))) {
            return Err(viol(
                w,
                "invalid-by-reference-dropped",
                format!("invalid-by-reference-not-dropped:{:?}", pm.pspec),
                format!("P{p} built commit {id} with the invalid cached proposal {r} ({:?}) and did not report it as unused", pm.pspec),
            ));
        }
    }
    w.ext.c10_unused.insert(id, sum);
    Ok(())
}

/// applied / unused proposals reported by a member that processed (or applied) commit `cid`
pub fn on_commit_processed(w: &mut World, p: usize, g: usize, cid: u64, desc: &CommitMessageDescription) -> VResult<()> {
    if !w.cfg.oracle("proposal-agreement") {
        return Ok(());
    }
    let (applied, unused) = match &desc.effect {
        mls_rs::group::CommitEffect::NewEpoch(ne) => (summary(&ne.applied_proposals), summary(&ne.unused_proposals)),
        mls_rs::group::CommitEffect::Removed { new_epoch, .. } => (summary(&new_epoch.applied_proposals), summary(&new_epoch.unused_proposals)),
        _ => return Ok(()),
    };
    let msg = w.msgs[&cid].clone();
    w.stats.check("applied-proposals-agree");
    match w.ext.c10_applied.get(&cid) {
        None => {
            w.ext.c10_applied.insert(cid, (p, applied));
        }
        Some((first, a0)) => {
            if *a0 != applied {
                return Err(viol(
                    w,
                    "applied-proposals-agree",
                    "applied-proposals-differ".into(),
                    format!("P{p} and P{first} report different applied proposals for commit {cid} ({} vs {})", applied.len(), a0.len()),
                ));
            }
        }
    }
    // unused proposals: comparable when this member cached exactly what the committer had cached
    if msg.sender != p && !msg.external {
        let same_cache = {
            let refs: std::collections::BTreeSet<u64> = msg.refs.iter().copied().collect();
            w.ext.c10_cache_at_process.get(&(p, cid)).map(|c| *c == refs).unwrap_or(false)
        };
        if let (true, Some(cu)) = (same_cache, w.ext.c10_unused.get(&cid)) {
            w.stats.check("unused-proposals-agree");
            if *cu != unused {
                return Err(viol(
                    w,
                    "unused-proposals-agree",
                    "unused-proposals-differ".into(),
                    format!("P{p}, with the same cached proposals as committer P{}, reports {} unused proposals for commit {cid}, the committer reported {}", msg.sender, unused.len(), cu.len()),
                ));
            }
            if !unused.is_empty() {
                w.stats.probe("invalid-by-reference-proposal-dropped-consistently");
            }
        }
    }
    let _ = g;
    Ok(())
}

// ---------------------------------------------------------------------------------------------
// forger (B-FORGE): a PublicMessage commit written by hand, signed with a real member's key and MACed with the
// epoch's real membership key; the confirmation tag is random

fn enc_remove(idx: u32) -> Vec<u8> {
    let mut v = vec![0, 3];
    v.extend_from_slice(&idx.to_be_bytes());
    v
}

fn enc_gce(val: u8) -> Vec<u8> {
    let mut v = vec![0, 7];
    let list = crate::oracles::gce_list(val).mls_encode_to_vec().unwrap_or_default();
    v.extend_from_slice(&list);
    v
}

fn enc_psk(id: u8, nonce: &[u8]) -> Vec<u8> {
    let mut v = vec![0, 4, 1];
    put_vec(&mut v, &[b'k', id]);
    put_vec(&mut v, nonce);
    v
}

fn enc_resumption_psk(gid: &[u8], epoch: u64, nonce: &[u8]) -> Vec<u8> {
    // PreSharedKey proposal, psktype = resumption, usage = application
    let mut v = vec![0, 4, 2, 1];
    put_vec(&mut v, gid);
    v.extend_from_slice(&epoch.to_be_bytes());
    put_vec(&mut v, nonce);
    v
}

fn enc_reinit(gid: &[u8], suite: u16) -> Vec<u8> {
    let mut v = vec![0, 5];
    put_vec(&mut v, gid);
    v.extend_from_slice(&1u16.to_be_bytes());
    v.extend_from_slice(&suite.to_be_bytes());
    put_vec(&mut v, &[]);
    v
}

fn enc_add(kp_msg: &[u8]) -> Vec<u8> {
    // MLSMessage { version, wire_format = key_package(5), KeyPackage }: strip the 4 header bytes
    let mut v = vec![0, 1];
    v.extend_from_slice(&kp_msg[4..]);
    v
}

/// PublicMessage commit without path, signed with party `s`'s key for leaf `sleaf` of `epoch`; `entries` are
/// ProposalOrRef items (1 = proposal by value, 2 = reference)
pub fn build_forged(
    w: &World,
    s: usize,
    g: usize,
    epoch: u64,
    sleaf: u32,
    ctx: &[u8],
    entries: &[(u8, Vec<u8>)],
    mk: &[u8],
    confirmation_tag: &[u8],
) -> Option<Vec<u8>> {
    let mut content = vec![];
    put_vec(&mut content, &w.groups[g].gid);
    content.extend_from_slice(&epoch.to_be_bytes());
    content.push(1);
    content.extend_from_slice(&sleaf.to_be_bytes());
    put_vec(&mut content, &[]);
    content.push(3);
    let mut plist = vec![];
    for (kind, p) in entries {
        plist.push(*kind);
        if *kind == 2 {
            put_vec(&mut plist, p);
        } else {
            plist.extend_from_slice(p);
        }
    }
    put_vec(&mut content, &plist);
    content.push(0); // no path
    let mut tbs = vec![0, 1, 0, 1];
    tbs.extend_from_slice(&content);
    tbs.extend_from_slice(ctx);
    let mut sign_content = vec![];
    put_vec(&mut sign_content, b"MLS 1.0 FramedContentTBS");
    put_vec(&mut sign_content, &tbs);
    let csp = w.csp(s);
    let sig = csp.sign(&w.parties[s].signer, &sign_content).ok()?;
    let alg = HashAlg::for_suite(w.cfg.suite);
    let mut auth = vec![];
    put_vec(&mut auth, &sig);
    put_vec(&mut auth, confirmation_tag);
    let mut tbm = tbs.clone();
    tbm.extend_from_slice(&auth);
    let tag = alg.hmac(mk, &tbm);
    let mut msg = vec![0, 1, 0, 1];
    msg.extend_from_slice(&content);
    msg.extend_from_slice(&auth);
    put_vec(&mut msg, &tag);
    Some(msg)
}

/// ProposalRef of a public proposal message (RFC 9420 §5.2: RefHash over the AuthenticatedContent)
pub fn proposal_ref_of(suite: u16, bytes: &[u8]) -> Option<Vec<u8>> {
    let l = crate::c13::public_layout(bytes)?;
    let alg = HashAlg::for_suite(suite);
    let mut input = vec![];
    put_vec(&mut input, b"MLS 1.0 Proposal Reference");
    put_vec(&mut input, &bytes[2..l.auth_end]);
    Some(alg.hash(&input))
}

fn membership_key(w: &World, s: usize, g: usize) -> Option<Vec<u8>> {
    let grp = w.parties[s].mems[g].group.as_ref()?;
    for (name, bytes) in grp.verif_secrets().unwrap_or_default() {
        if name == "key_schedule" {
            let mut r = crate::refmls::Rd::new(&bytes);
            let _ = r.vec();
            let _ = r.vec();
            let _ = r.vec();
            return r.vec().ok().map(|v| v.to_vec());
        }
    }
    None
}

/// B-FORGE-UPDATE: member `s` sends an Update proposal whose (correctly signed) leaf re-uses the HPKE key of
/// another current member. Receivers cache it like any proposal; a committer must drop it (the key collides in
/// the tree) without disturbing the other proposals of the commit.
pub fn do_forge_update(w: &mut World, s: usize, g: usize, q: usize, victim: Option<usize>) -> VResult<bool> {
    if !w.live(s, g) || w.cfg.encrypt_handshake || w.groups[g].reinit_at.is_some() {
        return Ok(false);
    }
    let epoch = w.epoch_of(s, g).unwrap();
    if epoch != w.groups[g].log.len() as u64 {
        return Ok(false);
    }
    let Some(rec) = w.groups[g].records.get(&epoch).cloned() else { return Ok(false) };
    let Some(members) = w.groups[g].members.get(&epoch).cloned() else { return Ok(false) };
    let Some(sleaf) = members.get(&s).copied() else { return Ok(false) };
    let leaf_key = rec.roster.iter().find(|(i, _, _)| *i == sleaf).map(|(_, _, k)| k.clone());
    if leaf_key.as_deref() != Some(w.parties[s].signing_identity.signature_key.as_ref()) {
        return Ok(false);
    }
    let Some(mk) = membership_key(w, s, g) else { return Ok(false) };
    let Ok(tree) = crate::refmls::Tree::parse(&rec.tree) else { return Ok(false) };
    let others: Vec<u32> = members.values().copied().filter(|l| *l != sleaf).collect();
    if others.is_empty() {
        return Ok(false);
    }
    let vleaf = victim.and_then(|v| members.get(&v).copied()).filter(|l| *l != sleaf).unwrap_or(others[q % others.len()]);
    let (Some(mine), Some(victim)) = (tree.leaf(sleaf), tree.leaf(vleaf)) else { return Ok(false) };
    // LeafNode: enc_key, [sig_key, credential, capabilities], source, extensions, signature
    let raw = &mine.raw;
    let mut r = crate::refmls::Rd::new(raw);
    let parts = (|| -> Option<(usize, usize, Vec<u8>)> {
        r.vec().ok()?;
        let mid_start = r.pos;
        r.vec().ok()?;
        r.u16().ok()?;
        r.vec().ok()?;
        for _ in 0..5 {
            r.vec().ok()?;
        }
        let mid_end = r.pos;
        match r.u8().ok()? {
            1 => {
                r.u64().ok()?;
                r.u64().ok()?;
            }
            2 => {}
            3 => {
                r.vec().ok()?;
            }
            _ => return None,
        }
        let ext = r.vec().ok()?.to_vec();
        Some((mid_start, mid_end, ext))
    })();
    let Some((mid_start, mid_end, ext)) = parts else { return Ok(false) };
    let mut leaf = vec![];
    put_vec(&mut leaf, &victim.enc_key);
    leaf.extend_from_slice(&raw[mid_start..mid_end]);
    leaf.push(2); // leaf_node_source = update
    put_vec(&mut leaf, &ext);
    let mut tbs = leaf.clone();
    put_vec(&mut tbs, &w.groups[g].gid);
    tbs.extend_from_slice(&sleaf.to_be_bytes());
    let csp = w.csp(s);
    let mut sc = vec![];
    put_vec(&mut sc, b"MLS 1.0 LeafNodeTBS");
    put_vec(&mut sc, &tbs);
    let Ok(lsig) = csp.sign(&w.parties[s].signer, &sc) else { return Ok(false) };
    put_vec(&mut leaf, &lsig);
    // FramedContent with a Proposal (update)
    let mut content = vec![];
    put_vec(&mut content, &w.groups[g].gid);
    content.extend_from_slice(&epoch.to_be_bytes());
    content.push(1);
    content.extend_from_slice(&sleaf.to_be_bytes());
    put_vec(&mut content, &[]);
    content.push(2);
    content.extend_from_slice(&[0, 2]);
    content.extend_from_slice(&leaf);
    let mut ftbs = vec![0, 1, 0, 1];
    ftbs.extend_from_slice(&content);
    ftbs.extend_from_slice(&rec.ctx);
    let mut sc = vec![];
    put_vec(&mut sc, b"MLS 1.0 FramedContentTBS");
    put_vec(&mut sc, &ftbs);
    let Ok(sig) = csp.sign(&w.parties[s].signer, &sc) else { return Ok(false) };
    let alg = HashAlg::for_suite(w.cfg.suite);
    let mut auth = vec![];
    put_vec(&mut auth, &sig);
    let mut tbm = ftbs.clone();
    tbm.extend_from_slice(&auth);
    let tag = alg.hmac(&mk, &tbm);
    let mut bytes = vec![0, 1, 0, 1];
    bytes.extend_from_slice(&content);
    bytes.extend_from_slice(&auth);
    put_vec(&mut bytes, &tag);
    w.stats.fault("B-FORGE-UPDATE");
    let id = w.new_msg_id();
    w.ev(format!("forged update P{s} g{g} e{epoch} re-using the HPKE key of leaf {vleaf} id={id}"));
    let msg = Msg {
        id,
        g,
        kind: MsgKind::Proposal,
        bytes,
        sender: s,
        epoch,
        payload: vec![],
        aad: vec![],
        refs: vec![],
        welcomes: vec![],
        oob_tree: None,
        external: false,
        ext_psks: vec![],
        res_psks: vec![],
        private: false,
        spec: None,
        pspec: None,
        time: w.clock,
        gen: 0,
    };
    w.msgs.insert(id, msg);
    w.groups[g].props.entry(epoch).or_default().push(id);
    for p in members.keys() {
        if *p != s {
            w.mem(*p, g).inbox.push(id);
        }
    }
    Ok(true)
}

/// B-FORGE-EXT: the external sender (listed in the external-senders extension, its key held by the harness) signs an
/// Update proposal - a proposal type an external sender may not send. Members cache it like any proposal; a committer
/// must drop it and report it unused.
pub fn do_forge_ext_update(w: &mut World, g: usize, q: usize) -> VResult<bool> {
    let Some((sk, _sid)) = w.ext.ext_sender.clone() else { return Ok(false) };
    if g >= w.groups.len() || w.cfg.encrypt_handshake || w.groups[g].reinit_at.is_some() {
        return Ok(false);
    }
    let epoch = w.groups[g].log.len() as u64;
    let Some(rec) = w.groups[g].records.get(&epoch).cloned() else { return Ok(false) };
    let Some(members) = w.groups[g].members.get(&epoch).cloned() else { return Ok(false) };
    if members.is_empty() {
        return Ok(false);
    }
    let Ok(tree) = crate::refmls::Tree::parse(&rec.tree) else { return Ok(false) };
    let leaves: Vec<u32> = members.values().copied().collect();
    let Some(leaf) = tree.leaf(leaves[q % leaves.len()]) else { return Ok(false) };
    // FramedContent: sender = external(0); content = Proposal(update, a copy of a member's leaf)
    let mut content = vec![];
    put_vec(&mut content, &w.groups[g].gid);
    content.extend_from_slice(&epoch.to_be_bytes());
    content.push(2);
    content.extend_from_slice(&0u32.to_be_bytes());
    put_vec(&mut content, &[]);
    content.push(2);
    content.extend_from_slice(&[0, 2]);
    content.extend_from_slice(&leaf.raw);
    // (an external sender's signature does not cover the group context)
    let mut tbs = vec![0, 1, 0, 1];
    tbs.extend_from_slice(&content);
    let mut sc = vec![];
    put_vec(&mut sc, b"MLS 1.0 FramedContentTBS");
    put_vec(&mut sc, &tbs);
    let csp = w.idgen_suite();
    let Ok(sig) = csp.sign(&sk, &sc) else { return Ok(false) };
    let mut bytes = vec![0, 1, 0, 1];
    bytes.extend_from_slice(&content);
    put_vec(&mut bytes, &sig);
    w.stats.fault("B-FORGE-EXT");
    let id = w.new_msg_id();
    w.ev(format!("external sender sends an Update proposal g{g} e{epoch} id={id}"));
    let msg = Msg {
        id,
        g,
        kind: MsgKind::Proposal,
        bytes,
        sender: crate::observer::EXT_SENDER,
        epoch,
        payload: vec![],
        aad: vec![],
        refs: vec![],
        welcomes: vec![],
        oob_tree: None,
        external: true,
        ext_psks: vec![],
        res_psks: vec![],
        private: false,
        spec: None,
        pspec: Some(PropSpec::Template { t: 20, q: 0 }),
        time: w.clock,
        gen: 0,
    };
    w.msgs.insert(id, msg);
    w.groups[g].props.entry(epoch).or_default().push(id);
    for p in members.keys() {
        w.mem(*p, g).inbox.push(id);
    }
    Ok(true)
}

pub fn do_forge(w: &mut World, s: usize, g: usize, template: u64, q: usize) -> VResult<bool> {
    if !w.live(s, g) || w.cfg.encrypt_handshake {
        return Ok(false);
    }
    let epoch = w.epoch_of(s, g).unwrap();
    let Some(rec) = w.groups[g].records.get(&epoch).cloned() else { return Ok(false) };
    let Some(sleaf) = w.groups[g].members.get(&epoch).and_then(|m| m.get(&s)).copied() else { return Ok(false) };
    // the harness must hold the key the member's leaf carries (no identity change inside the group)
    let leaf_key = rec.roster.iter().find(|(i, _, _)| *i == sleaf).map(|(_, _, k)| k.clone());
    if leaf_key.as_deref() != Some(w.parties[s].signing_identity.signature_key.as_ref()) {
        return Ok(false);
    }
    let Some(mk) = membership_key(w, s, g) else { return Ok(false) };
    let others: Vec<u32> = rec.roster.iter().map(|(i, _, _)| *i).filter(|i| *i != sleaf).collect();
    let victim = others.get(q % others.len().max(1)).copied();
    let mut r = crate::prng::Prng::new(crate::prng::mix(&[w.seed, w.step_no as u64, 0xf0f]));
    // proposals by value
    let (props, name, rule_expected): (Vec<Vec<u8>>, &str, bool) = match template % 14 {
        0 => {
            // sanity: one valid Add - must pass every rule and fail only at the (random) confirmation tag
            let banned = w.cfg.knob("banned").map(|_| w.parties.len() - 1);
            let outsider = (0..w.parties.len()).find(|p| {
                matches!(w.mem_ref(*p, g).map(|m| m.status.clone()).unwrap_or(Status::Never), Status::Never)
                    && !w.parties[*p].crashed
                    && Some(*p) != banned
                    && Some(*p) != w.legacy()
                    && !rec.roster.iter().any(|(_, id, _)| *id == w.parties[*p].name)
            });
            let Some(o) = outsider else { return Ok(false) };
            if r.chance(1, 3) {
                // the last second of the key package's lifetime is still inside it
                let at = mls_rs::time::MlsTime::from(w.clock.saturating_sub(365 * 24 * 3600));
                let Some(kp) = w.gen_key_package_at(o, at)? else { return Ok(false) };
                (vec![enc_add(&kp)], "valid-add-in-last-second-of-lifetime", false)
            } else {
                let Some(kp) = w.gen_key_package(o)? else { return Ok(false) };
                (vec![enc_add(&kp)], "valid-add", false)
            }
        }
        1 => (vec![enc_remove(sleaf)], "remove-committer", true),
        2 => match victim {
            Some(v) => (vec![enc_remove(v), enc_remove(v)], "double-remove", true),
            None => return Ok(false),
        },
        3 => (vec![enc_gce(1), enc_gce(2)], "two-group-context-extensions", true),
        4 => match victim {
            Some(v) => (vec![enc_reinit(b"forged-reinit", w.cfg.suite), enc_remove(v)], "reinit-mixed-with-others", true),
            None => return Ok(false),
        },
        5 => {
            let nh = HashAlg::for_suite(w.cfg.suite).len();
            let n = r.bytes(nh);
            (vec![enc_psk(0, &n), enc_psk(0, &n)], "duplicate-psk", true)
        }
        6 => {
            let beyond = rec.roster.iter().map(|(i, _, _)| *i).max().unwrap_or(0) + 7;
            (vec![enc_remove(beyond)], "remove-non-member", true)
        }
        10 => {
            // an Add whose key package expired a second ago
            let banned = w.cfg.knob("banned").map(|_| w.parties.len() - 1);
            let outsider = (0..w.parties.len()).find(|p| {
                matches!(w.mem_ref(*p, g).map(|m| m.status.clone()).unwrap_or(Status::Never), Status::Never)
                    && !w.parties[*p].crashed
                    && Some(*p) != banned
                    && Some(*p) != w.legacy()
                    && !rec.roster.iter().any(|(_, id, _)| *id == w.parties[*p].name)
            });
            let Some(o) = outsider else { return Ok(false) };
            let at = mls_rs::time::MlsTime::from(w.clock.saturating_sub(365 * 24 * 3600 + 1));
            let Some(kp) = w.gen_key_package_at(o, at)? else { return Ok(false) };
            (vec![enc_add(&kp)], "add-expired-key-package", true)
        }
        13 => {
            // new group-context extensions of a type the device of one member does not support
            let ok = w
                .legacy()
                .map(|l| w.groups[g].members.get(&epoch).map(|m| m.contains_key(&l) && l != s).unwrap_or(false) && !w.ctx_has_f001(g, epoch))
                .unwrap_or(false);
            if !ok {
                return Ok(false);
            }
            (vec![enc_gce(1)], "group-context-extension-unsupported-by-a-member", true)
        }
        12 => {
            // a ReInit next to a custom proposal of a type every member supports
            let mut cp = vec![0xF0u8, 0x00];
            put_vec(&mut cp, &[7, 7, 7]);
            (vec![enc_reinit(b"forged-reinit", w.cfg.suite), cp], "reinit-mixed-with-custom-proposal", true)
        }
        11 => {
            // ExternalInit belongs in an external commit of a new member, never in a member's commit
            let mut v = vec![0u8, 6];
            put_vec(&mut v, &r.bytes(32));
            (vec![v], "external-init-from-member", true)
        }
        9 => {
            // a ReInit on its own is a valid proposal set: the commit must get as far as the (random) confirmation
            // tag, and being rejected there it must leave nothing behind (pending re-initialisation)
            (vec![enc_reinit(b"forged-reinit", w.cfg.suite)], "valid-reinit-alone", false)
        }
        8 => {
            // a resumption PSK of the current epoch number - of a group nobody here belongs to
            let nh = HashAlg::for_suite(w.cfg.suite).len();
            let n = r.bytes(nh);
            (vec![enc_resumption_psk(b"some-other-group", epoch, &n)], "resumption-psk-of-foreign-group", true)
        }
        _ => {
            // add the key package of somebody who is already a member (duplicate identity and keys)
            let member_kp = w.kp_owner.values().find(|(o, _)| {
                *o != s && w.groups[g].members.get(&epoch).map(|m| m.contains_key(o)).unwrap_or(false)
            });
            match member_kp {
                Some((_, kp)) => (vec![enc_add(kp)], "add-existing-member", true),
                None => return Ok(false),
            }
        }
    };
    let entries: Vec<(u8, Vec<u8>)> = props.iter().map(|p| (1u8, p.clone())).collect();
    let tag_seed = r.bytes(HashAlg::for_suite(w.cfg.suite).len());
    let Some(msg) = build_forged(w, s, g, epoch, sleaf, &rec.ctx, &entries, &mk, &tag_seed) else { return Ok(false) };
    w.stats.fault("B-FORGE");
    *w.stats.probes.entry(format!("forged-commit:{name}")).or_default() += 1;
    let receivers: Vec<usize> = w
        .live_members(g)
        .into_iter()
        .filter(|p| *p != s && w.epoch_of(*p, g) == Some(epoch))
        .collect();
    for p in receivers {
        let pre = crate::oracles::before_op(w, p, g, "process_incoming_message(forged commit)")?;
        let keep = w.parties[p].mems[g].group.clone();
        let res = w.process(p, g, &msg, "process_forged_commit")?;
        match res {
            Ok(_) => {
                w.mem(p, g).group = keep;
                return Err(viol(
                    w,
                    "forged-commit-rejected",
                    format!("forged-commit-accepted:{name}"),
                    format!("P{p} accepted a commit forged in P{s}'s name (template {name}) whose confirmation tag is random"),
                ));
            }
            Err(e) => {
                let cls = err_class(&e);
                w.ev(format!("forge {name} as P{s} -> P{p} err {cls}"));
                *w.stats.probes.entry(format!("forged:{name}:{cls}")).or_default() += 1;
                w.stats.check("forged-commit-rejected");
                if rule_expected && cls == "InvalidConfirmationTag" {
                    return Err(viol(
                        w,
                        "receiver-side-proposal-rules",
                        format!("invalid-proposal-set-passed-receiver-rules:{name}"),
                        format!("P{p}: a commit carrying an invalid proposal set ({name}) passed every receiver-side proposal rule and was only stopped by its (random) confirmation tag"),
                    ));
                }
                if !rule_expected && cls != "InvalidConfirmationTag" && name != "valid-add" {
                    return Err(viol(
                        w,
                        "receiver-side-proposal-rules",
                        format!("valid-proposal-set-refused:{name}:{cls}"),
                        format!("P{p}: a commit carrying a valid proposal set ({name}) was refused with {cls} before its confirmation tag was looked at"),
                    ));
                }
                if !rule_expected && cls != "InvalidConfirmationTag" {
                    // the forger itself is broken (or a valid add was refused): harness problem, not a library verdict
                    return Err(Violation::new(
                        "HARNESS",
                        "forger",
                        "forger-sanity".into(),
                        format!("a forged commit with one valid Add was rejected with {cls} instead of InvalidConfirmationTag"),
                    ));
                }
                crate::oracles::after_rejected(w, p, g, u64::MAX, &format!("forged-commit-{name}"), &cls, pre)?;
            }
        }
    }
    // an observer checks the same proposal rules (it cannot check the confirmation tag, nor anything that needs a
    // PSK value or a past epoch's secret)
    let observer_checkable = rule_expected && !matches!(name, "duplicate-psk" | "resumption-psk-of-foreign-group");
    if observer_checkable {
        let now = w.now();
        let prop = w.cfg.property.clone();
        for k in 0..w.ext.observers.len() {
            if w.ext.observers[k].g != g || w.ext.observers[k].group.group_context().epoch != epoch {
                continue;
            }
            let mut grp = w.ext.observers[k].group.clone();
            let res = guarded(&prop, "observer.process_incoming_message(forged commit)", || {
                grp.process_incoming_message_with_time(mls_rs::MlsMessage::from_bytes(&msg)?, now)
            })?;
            w.stats.check("observer-rejects-invalid-proposal-set");
            match res {
                Ok(_) => {
                    return Err(viol(
                        w,
                        "observer-rejects-invalid",
                        format!("observer-accepted-invalid-proposal-set:{name}"),
                        format!("observer {k} at epoch {epoch} accepted a commit signed by P{s} that carries an invalid proposal set ({name}); members reject it on a proposal rule"),
                    ))
                }
                Err(e) => {
                    let cls = err_class(&e);
                    *w.stats.probes.entry(format!("observer-forged:{name}:{cls}")).or_default() += 1;
                }
            }
        }
    }
    Ok(true)
}

/// Directed C10 scenario: one commit whose by-reference proposals contain a forged Update that collides in the
/// tree, two Updates of one member, and other members' Updates; every member has cached all of them.
pub fn do_update_clash(w: &mut World, c: usize, g: usize, pick: u64) -> VResult<bool> {
    if !w.live(c, g) || w.cfg.encrypt_handshake || w.groups[g].reinit_at.is_some() {
        return Ok(false);
    }
    let epoch = w.groups[g].log.len() as u64;
    if w.epoch_of(c, g) != Some(epoch) || w.parties[c].mems[g].pending.is_some() {
        return Ok(false);
    }
    let others: Vec<usize> = w
        .live_members(g)
        .into_iter()
        .filter(|p| *p != c && w.epoch_of(*p, g) == Some(epoch) && w.parties[*p].mems[g].pending.is_none())
        .collect();
    if others.len() < 2 {
        return Ok(false);
    }
    let a = others[pick as usize % others.len()];
    let rest: Vec<usize> = others.iter().copied().filter(|p| *p != a).collect();
    let b = rest[(pick >> 8) as usize % rest.len()];
    if !do_forge_update(w, a, g, 0, Some(c))? {
        return Ok(false);
    }
    w.stats.probe("update-clash-scenario");
    let upd = PropSpec::Update { new_identity: false };
    w.do_propose(b, g, &upd)?;
    w.do_propose(b, g, &upd)?;
    for d in rest.iter().filter(|p| **p != b).take(((pick >> 16) % 3) as usize) {
        w.do_propose(*d, g, &upd)?;
    }
    // everybody caches everything that is addressed to them in this epoch
    let mut everyone = others.clone();
    everyone.push(c);
    for p in everyone {
        let ids: Vec<u64> = w.parties[p].mems[g]
            .inbox
            .iter()
            .copied()
            .filter(|i| w.msgs[i].kind == MsgKind::Proposal && w.msgs[i].epoch == epoch)
            .collect();
        for id in ids {
            if w.live(p, g) && w.epoch_of(p, g) == Some(epoch) {
                w.deliver_one(p, g, id, true)?;
            }
        }
    }
    w.do_commit(c, g, &CommitSpec::default())?;
    Ok(true)
}


/// PublicMessage carrying one proposal (encoded: type + body), signed with party `s`'s key for leaf `sleaf`
fn forge_proposal_msg(w: &World, s: usize, g: usize, epoch: u64, sleaf: u32, ctx: &[u8], mk: &[u8], proposal: &[u8]) -> Option<Vec<u8>> {
    let csp = w.csp(s);
    let mut content = vec![];
    put_vec(&mut content, &w.groups[g].gid);
    content.extend_from_slice(&epoch.to_be_bytes());
    content.push(1);
    content.extend_from_slice(&sleaf.to_be_bytes());
    put_vec(&mut content, &[]);
    content.push(2);
    content.extend_from_slice(proposal);
    let mut ftbs = vec![0, 1, 0, 1];
    ftbs.extend_from_slice(&content);
    ftbs.extend_from_slice(ctx);
    let mut sc = vec![];
    put_vec(&mut sc, b"MLS 1.0 FramedContentTBS");
    put_vec(&mut sc, &ftbs);
    let sig = csp.sign(&w.parties[s].signer, &sc).ok()?;
    let alg = HashAlg::for_suite(w.cfg.suite);
    let mut auth = vec![];
    put_vec(&mut auth, &sig);
    let mut tbm = ftbs.clone();
    tbm.extend_from_slice(&auth);
    let tag = alg.hmac(mk, &tbm);
    let mut bytes = vec![0, 1, 0, 1];
    bytes.extend_from_slice(&content);
    bytes.extend_from_slice(&auth);
    put_vec(&mut bytes, &tag);
    Some(bytes)
}

/// B-FORGE-REF: member `s` (a Byzantine member whose key the harness holds) sends well-formed Add proposals that
/// every receiver caches, and then a commit that references them although together they break a rule (the added
/// client is a member already; two Adds of one client). Receivers work on a copy of their group: they must refuse the
/// commit on the rule - not drop the offending Add and go on to the confirmation tag.
pub fn do_forge_ref_add(w: &mut World, s: usize, g: usize, pick: u64) -> VResult<bool> {
    if !w.live(s, g) || w.cfg.encrypt_handshake || w.groups[g].reinit_at.is_some() {
        return Ok(false);
    }
    let epoch = w.epoch_of(s, g).unwrap();
    if epoch != w.groups[g].log.len() as u64 {
        return Ok(false);
    }
    let Some(rec) = w.groups[g].records.get(&epoch).cloned() else { return Ok(false) };
    let Some(sleaf) = w.groups[g].members.get(&epoch).and_then(|m| m.get(&s)).copied() else { return Ok(false) };
    let leaf_key = rec.roster.iter().find(|(i, _, _)| *i == sleaf).map(|(_, _, k)| k.clone());
    if leaf_key.as_deref() != Some(w.parties[s].signing_identity.signature_key.as_ref()) {
        return Ok(false);
    }
    let Some(mk) = membership_key(w, s, g) else { return Ok(false) };
    let mut r = crate::prng::Prng::new(crate::prng::mix(&[w.seed, w.step_no as u64, 0xf0e]));
    let (kps, name): (Vec<Vec<u8>>, &str) = if pick % 2 == 0 {
        let member_kp = w.kp_owner.values().find(|(o, _)| {
            *o != s && w.groups[g].members.get(&epoch).map(|m| m.contains_key(o)).unwrap_or(false)
        });
        match member_kp {
            Some((_, kp)) => (vec![kp.clone()], "by-reference-add-of-existing-member"),
            None => return Ok(false),
        }
    } else {
        let banned = w.cfg.knob("banned").map(|_| w.parties.len() - 1);
        let outsider = (0..w.parties.len()).find(|p| {
            matches!(w.mem_ref(*p, g).map(|m| m.status.clone()).unwrap_or(Status::Never), Status::Never)
                && !w.parties[*p].crashed
                && Some(*p) != banned
                && Some(*p) != w.legacy()
                && !rec.roster.iter().any(|(_, id, _)| *id == w.parties[*p].name)
        });
        let Some(o) = outsider else { return Ok(false) };
        let (Some(a), Some(b)) = (w.gen_key_package(o)?, w.gen_key_package(o)?) else { return Ok(false) };
        (vec![a, b], "two-by-reference-adds-of-one-client")
    };
    let mut props = vec![];
    for kp in &kps {
        let Some(m) = forge_proposal_msg(w, s, g, epoch, sleaf, &rec.ctx, &mk, &enc_add(kp)) else { return Ok(false) };
        props.push(m);
    }
    let mut entries: Vec<(u8, Vec<u8>)> = vec![];
    for m in &props {
        let Some(rf) = proposal_ref_of(w.cfg.suite, m) else { return Ok(false) };
        entries.push((2u8, rf));
    }
    let tag_seed = r.bytes(HashAlg::for_suite(w.cfg.suite).len());
    let Some(commit) = build_forged(w, s, g, epoch, sleaf, &rec.ctx, &entries, &mk, &tag_seed) else { return Ok(false) };
    w.stats.fault("B-FORGE-REF");
    *w.stats.probes.entry(format!("forged-commit:{name}")).or_default() += 1;
    let now = w.now();
    let prop = w.cfg.property.clone();
    let receivers: Vec<usize> = w
        .live_members(g)
        .into_iter()
        .filter(|p| *p != s && w.epoch_of(*p, g) == Some(epoch) && w.parties[*p].mems[g].pending.is_none())
        .collect();
    for p in receivers {
        let mut grp = w.parties[p].mems[g].group.clone().unwrap();
        let mut cached = true;
        for m in &props {
            let res = guarded(&prop, "process_incoming_message(forged add proposal)", || {
                grp.process_incoming_message_with_time(mls_rs::MlsMessage::from_bytes(m)?, now)
            })?;
            if res.is_err() {
                // a receiver may refuse the proposal itself: then there is nothing to reference
                cached = false;
                *w.stats.probes.entry(format!("forged-ref:{name}:proposal-refused")).or_default() += 1;
            }
        }
        if !cached {
            continue;
        }
        let res = guarded(&prop, "process_incoming_message(forged commit by reference)", || {
            grp.process_incoming_message_with_time(mls_rs::MlsMessage::from_bytes(&commit)?, now)
        })?;
        w.stats.check("forged-commit-rejected");
        match res {
            Ok(_) => {
                return Err(viol(
                    w,
                    "forged-commit-rejected",
                    format!("forged-commit-accepted:{name}"),
                    format!("P{p} accepted a commit forged in P{s}'s name (template {name}) whose confirmation tag is random"),
                ))
            }
            Err(e) => {
                let cls = err_class(&e);
                w.ev(format!("forge {name} as P{s} -> P{p} err {cls}"));
                *w.stats.probes.entry(format!("forged:{name}:{cls}")).or_default() += 1;
                if cls == "InvalidConfirmationTag" {
                    return Err(viol(
                        w,
                        "receiver-side-proposal-rules",
                        format!("invalid-proposal-set-passed-receiver-rules:{name}"),
                        format!("P{p}: a commit referencing cached proposals that break a rule together ({name}) passed every receiver-side proposal rule and was only stopped by its (random) confirmation tag"),
                    ));
                }
            }
        }
    }
    // an observer that has seen the proposals refuses the commit as well
    for k in 0..w.ext.observers.len() {
        if w.ext.observers[k].g != g || w.ext.observers[k].group.group_context().epoch != epoch {
            continue;
        }
        let mut grp = w.ext.observers[k].group.clone();
        let mut cached = true;
        for m in &props {
            let res = guarded(&prop, "observer.process_incoming_message(forged add proposal)", || {
                grp.process_incoming_message_with_time(mls_rs::MlsMessage::from_bytes(m)?, now)
            })?;
            cached &= res.is_ok();
        }
        if !cached {
            continue;
        }
        let res = guarded(&prop, "observer.process_incoming_message(forged commit by reference)", || {
            grp.process_incoming_message_with_time(mls_rs::MlsMessage::from_bytes(&commit)?, now)
        })?;
        w.stats.check("observer-rejects-invalid-proposal-set");
        if res.is_ok() {
            return Err(viol(
                w,
                "observer-rejects-invalid",
                format!("observer-accepted-invalid-proposal-set:{name}"),
                format!("observer {k} at epoch {epoch} accepted a commit signed by P{s} that references cached proposals breaking a rule together ({name})"),
            ));
        }
    }
    Ok(true)
}
