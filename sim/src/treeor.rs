//! Tree oracles: C08 (valid tree, independent tree hash, leftmost-blank rule), C09 (private keys match the
//! tree), C02 (HPKE recipients of a commit).

use std::collections::BTreeSet;

use mls_rs::external_client::ExternalClient;
use mls_rs::{CipherSuiteProvider, CryptoProvider, MlsMessage};

use crate::crypto::Ev;
use crate::refmls::{HashAlg, Node, Tree};
use crate::types::*;
use crate::world::*;

fn viol(w: &World, oracle: &str, sig: String, detail: String) -> Violation {
    Violation::new(&w.cfg.property, oracle, sig, detail)
}

/// C08: called for every member that has just reached an epoch
pub fn c08_on_epoch(w: &mut World, p: usize, g: usize, how: &str) -> VResult<()> {
    if !w.cfg.oracle("tree-valid") {
        return Ok(());
    }
    let group = w.parties[p].mems[g].group.clone().expect("group");
    let epoch = group.current_epoch();
    let tree_bytes = group
        .export_tree()
        .to_bytes()
        .map_err(|e| viol(w, "tree-export", "export".into(), format!("{e:?}")))?;
    let tree = Tree::parse(&tree_bytes).map_err(|e| {
        viol(
            w,
            "tree-parse",
            "exported-tree-not-parseable".into(),
            format!("P{p}: the reference reader cannot parse the exported tree of epoch {epoch}: {}", e.0),
        )
    })?;
    let alg = HashAlg::for_suite(w.cfg.suite);
    // (b) independent tree hash
    w.stats.check("independent-tree-hash");
    let want = group.context().tree_hash.clone();
    let got = tree.tree_hash(alg);
    if want != got {
        return Err(viol(
            w,
            "independent-tree-hash",
            format!("tree-hash-mismatch:{how}"),
            format!(
                "P{p} epoch {epoch} (reached via {how}): the tree hash in the group context ({}) differs from the hash recomputed from the exported nodes by the reference implementation ({}); {} nodes",
                hex::encode(&want[..6.min(want.len())]),
                hex::encode(&got[..6]),
                tree.nodes.len()
            ),
        ));
    }
    // (c) structure
    let probs = tree.structural_problems();
    if let Some(pr) = probs.first() {
        return Err(viol(
            w,
            "tree-structure",
            format!("tree-structure:{}", pr.split(' ').take(3).collect::<Vec<_>>().join("-")),
            format!("P{p} epoch {epoch} via {how}: {pr}"),
        ));
    }
    probes(w, &tree);
    // leftmost-blank rule against the previous epoch's canonical tree (once per epoch)
    if epoch > 0 && w.ext.leftmost_checked.insert((g, epoch)) {
        let cid = w.groups[g].log.get(epoch as usize - 1).copied();
        let external = cid.map(|c| w.msgs[&c].external).unwrap_or(false);
        if let (Some(prev), false) = (w.groups[g].records.get(&(epoch - 1)), external) {
            if let Ok(t0) = Tree::parse(&prev.tree) {
                leftmost_rule(w, p, epoch, &t0, &tree)?;
            }
        }
    }
    // (a) the library's own full joiner / observer validation on this member's copy
    let every = w.cfg.knob("observe-every").unwrap_or(3);
    if crate::prng::mix(&[w.seed, p as u64, epoch, 0x0b5]) % every == 0 {
        observer_validation(w, p, g, &group, &tree_bytes)?;
    }
    Ok(())
}

fn probes(w: &mut World, tree: &Tree) {
    let occ = tree.occupied_leaves();
    let n = tree.full_leaves();
    let last = occ.last().copied().unwrap_or(0);
    if (0..last).any(|i| tree.leaf(i).is_none()) {
        w.stats.probe("tree-with-interior-blank-leaf");
    }
    let mut unmerged_under_parent = false;
    for nd in tree.nodes.iter().flatten() {
        if let Node::Parent(p) = nd {
            if !p.unmerged.is_empty() {
                unmerged_under_parent = true;
            }
        }
    }
    if unmerged_under_parent {
        w.stats.probe("tree-with-unmerged-leaves");
    }
    *w.stats.probes.entry(format!("tree-leaves-pow2:{n}")).or_default() += 1;
}

fn leftmost_rule(w: &mut World, p: usize, epoch: u64, t0: &Tree, t1: &Tree) -> VResult<()> {
    w.stats.check("leftmost-blank-rule");
    let n0 = t0.full_leaves().max(t1.full_leaves());
    // leaves that are new in t1: key-package sourced leaves that differ from t0 at that position
    let mut new_leaves = vec![];
    for i in 0..t1.full_leaves() {
        if let Some(l) = t1.leaf(i) {
            if l.source == 1 && t0.leaf(i).map(|o| o.raw != l.raw).unwrap_or(true) {
                new_leaves.push(i);
            }
        }
    }
    if new_leaves.is_empty() {
        return Ok(());
    }
    // blanks of t0 after this commit's removals
    let mut blanks = vec![];
    for i in 0..n0.max(t1.full_leaves()) + new_leaves.len() as u32 {
        let was = t0.leaf(i).is_some();
        let removed = was && (t1.leaf(i).is_none() || new_leaves.contains(&i));
        if !was || removed {
            blanks.push(i);
        }
    }
    let want: Vec<u32> = blanks.into_iter().take(new_leaves.len()).collect();
    if want != new_leaves {
        return Err(viol(
            w,
            "leftmost-blank-rule",
            "new-leaf-not-leftmost-blank".into(),
            format!(
                "epoch {epoch} (seen at P{p}): leaves added by the commit sit at {:?}, the leftmost blank slots after its removals are {:?}",
                new_leaves, want
            ),
        ));
    }
    if new_leaves.iter().any(|i| *i < t0.occupied_leaves().last().copied().unwrap_or(0)) {
        w.stats.probe("joiner-placed-in-interior-blank");
    }
    Ok(())
}

fn observer_validation(w: &mut World, p: usize, g: usize, group: &SimGroup, tree_bytes: &[u8]) -> VResult<()> {
    let prop = w.cfg.property.clone();
    let with_tree = crate::prng::mix(&[w.seed, p as u64, group.current_epoch(), 0x77]) & 1 == 1;
    let gi = guarded(&prop, "group_info_message", || {
        group.group_info_message_allowing_ext_commit(with_tree)
    })?;
    let gi = match gi {
        Ok(m) => m,
        Err(e) => {
            return Err(viol(
                w,
                "group-info",
                format!("group-info-failed:{}", err_class(&e)),
                format!("P{p} cannot produce a GroupInfo for its current epoch: {e:?}"),
            ))
        }
    };
    let gi_bytes = gi.to_bytes().unwrap_or_default();
    crate::oracles::on_wire(w, &gi_bytes, "group_info")?;
    let party = &w.parties[p];
    let ext_client = ExternalClient::builder()
        .identity_provider(party.identity.clone())
        .crypto_provider(party.crypto.clone())
        .extension_type(mls_rs::extension::ExtensionType::new(0xF001))
        .custom_proposal_types(Some(mls_rs::group::proposal::ProposalType::new(0xF000)))
        .build();
    let now = w.now();
    let r = guarded(&prop, "observe_group", || {
        let m = MlsMessage::from_bytes(&gi_bytes)?;
        let tree = if with_tree {
            None
        } else {
            Some(mls_rs::group::ExportedTree::from_bytes(tree_bytes)?)
        };
        ext_client.observe_group(m, tree, Some(now))
    })?;
    w.stats.check("observer-validates-exported-tree");
    if let Err(e) = r {
        return Err(viol(
            w,
            "observer-validation",
            format!("exported-tree-rejected:{}", err_class(&e)),
            format!(
                "the GroupInfo + ratchet tree exported by P{p} for epoch {} of g{g} do not pass the library's own validation for an outside observer: {e:?}",
                group.current_epoch()
            ),
        ));
    }
    Ok(())
}

// ---------------------------------------------------------------------------------------------
// C09

/// every stored private key opens what is sealed to the public key at that node; no key for a blank node
pub fn c09_on_epoch(w: &mut World, p: usize, g: usize, how: &str) -> VResult<()> {
    if !w.cfg.oracle("private-keys") {
        return Ok(());
    }
    let group = w.parties[p].mems[g].group.clone().expect("group");
    let epoch = group.current_epoch();
    let tree_bytes = group.export_tree().to_bytes().unwrap_or_default();
    let Ok(tree) = Tree::parse(&tree_bytes) else {
        return Ok(());
    };
    let (leaf, keys) = group.verif_private_keys();
    let csp = w.csp(p);
    let path = tree.direct_copath(leaf);
    w.stats.check("private-keys-match-tree");
    if keys.first().map(|k| k.is_none()).unwrap_or(true) {
        return Err(viol(
            w,
            "private-keys-match-tree",
            "no-leaf-key".into(),
            format!("P{p} epoch {epoch} via {how}: no private key stored for its own leaf {leaf}"),
        ));
    }
    for (pos, key) in keys.iter().enumerate() {
        let node_idx = if pos == 0 {
            2 * leaf
        } else {
            match path.get(pos - 1) {
                Some(((lo, hi), _)) => Tree::idx(*lo, *hi),
                None => {
                    if key.is_some() {
                        return Err(viol(
                            w,
                            "private-keys-match-tree",
                            "key-beyond-root".into(),
                            format!("P{p} epoch {epoch}: private key stored at direct-path position {pos} beyond the root"),
                        ));
                    }
                    continue;
                }
            }
        };
        let public = tree.key_of(node_idx);
        // a member knows the key of every non-blank node on its direct path unless it is listed there as unmerged
        if pos > 0 && key.is_none() {
            if let Some(parent) = tree.parent(node_idx) {
                w.stats.check("path-key-held-unless-unmerged");
                if !parent.unmerged.contains(&leaf) {
                    return Err(viol(
                        w,
                        "private-keys-match-tree",
                        format!("missing-key-for-path-node:{how}"),
                        format!("P{p} epoch {epoch} via {how}: no private key for node {node_idx} on its direct path (position {pos}) although the node is not blank and leaf {leaf} is not among its unmerged leaves"),
                    ));
                }
            }
        }
        match (key, public) {
            (None, _) => {}
            (Some(_), None) => {
                return Err(viol(
                    w,
                    "private-keys-match-tree",
                    "key-for-blank-node".into(),
                    format!("P{p} epoch {epoch} via {how}: a private key is stored for blank node {node_idx} (direct-path position {pos})"),
                ));
            }
            (Some(sk), Some(pk)) => {
                let pk: mls_rs::crypto::HpkePublicKey = pk.into();
                let sk: mls_rs::crypto::HpkeSecretKey = sk.clone().into();
                let ct = csp.hpke_seal(&pk, b"mlsim c09", None, b"probe");
                let ok = match ct {
                    Ok(ct) => matches!(csp.hpke_open(&ct, &sk, &pk, b"mlsim c09", None), Ok(pt) if &pt[..] == b"probe"),
                    Err(_) => false,
                };
                w.stats.check("private-key-opens-node-key");
                if !ok {
                    return Err(viol(
                        w,
                        "private-keys-match-tree",
                        format!("key-does-not-match-node:{how}"),
                        format!("P{p} epoch {epoch} via {how}: the private key stored at direct-path position {pos} does not open what is sealed to the public key of node {node_idx}"),
                    ));
                }
                if pos > 0 {
                    w.stats.probe("held-path-key-verified");
                }
            }
        }
    }
    // after a commit with update path every non-blank node on the committer's direct path has a fresh key
    if epoch > 0 && w.ext.fresh_checked.insert((g, epoch)) {
        if let (Some(prev), Some(cid)) = (
            w.groups[g].records.get(&(epoch - 1)).cloned(),
            w.groups[g].log.get(epoch as usize - 1).copied(),
        ) {
            let msg = w.msgs[&cid].clone();
            if let (Ok(t0), Some(true)) = (Tree::parse(&prev.tree), w.ext.commit_has_path.get(&cid).copied()) {
                let old: BTreeSet<Vec<u8>> = t0.all_keys().into_iter().collect();
                let cleaf = w.groups[g]
                    .members
                    .get(&epoch)
                    .and_then(|m| m.get(&msg.sender))
                    .copied();
                if let Some(cleaf) = cleaf {
                    w.stats.check("fresh-keys-on-committer-path");
                    let mut idxs = vec![2 * cleaf];
                    idxs.extend(tree.direct_copath(cleaf).iter().map(|((lo, hi), _)| Tree::idx(*lo, *hi)));
                    for idx in idxs {
                        if let Some(k) = tree.key_of(idx) {
                            if old.contains(&k) {
                                return Err(viol(
                                    w,
                                    "fresh-keys-on-committer-path",
                                    "stale-key-on-committer-path".into(),
                                    format!("epoch {epoch}: node {idx} on the direct path of committer P{} (leaf {cleaf}) carries a public key that already appeared in the tree of epoch {}", msg.sender, epoch - 1),
                                ));
                            }
                        }
                    }
                }
            }
        }
    }
    // a member never retains the leaf private key it replaced
    if let Some(old) = w.ext.old_leaf_keys.get(&(p, g)).cloned() {
        if let Some(cur) = keys.first().and_then(|k| k.clone()) {
            if cur != old.0 && epoch > old.1 {
                // the old key must not occur anywhere in the member's complete state
                let st = group.verif_state().unwrap_or_default();
                w.stats.check("replaced-leaf-key-erased");
                for (name, bytes) in st {
                    if name == "repo_inserts" || name == "repo_updates" {
                        continue;
                    }
                    if old.0.len() >= 16 && bytes.windows(old.0.len()).any(|wdw| wdw == &old.0[..]) {
                        return Err(viol(
                            w,
                            "replaced-leaf-key-erased",
                            format!("old-leaf-key-retained:{name}"),
                            format!("P{p} epoch {epoch}: the leaf private key it replaced after epoch {} is still present in state component `{name}`", old.1),
                        ));
                    }
                }
            }
        }
    }
    if let Some(cur) = keys.first().and_then(|k| k.clone()) {
        let e = w.ext.old_leaf_keys.entry((p, g)).or_insert((cur.clone(), epoch));
        if e.0 != cur {
            *e = (cur, epoch);
        }
    }
    Ok(())
}

// ---------------------------------------------------------------------------------------------
// C02 oracle A: recipients of every HPKE encryption made while building a commit

pub fn c02_after_commit_built(w: &mut World, p: usize, g: usize, id: u64, events: Vec<Ev>) -> VResult<()> {
    if !w.cfg.oracle("recipients") {
        return Ok(());
    }
    let prop = w.cfg.property.clone();
    let msg = w.msgs[&id].clone();
    // the tree of the new epoch: apply the commit on a clone of the committer
    let mut clone = w.parties[p].mems[g].group.clone().expect("group");
    let detached = msg.spec.as_ref().map(|s| s.detached).unwrap_or(false);
    let applied = if detached {
        let secrets = w.parties[p].mems[g].detached.iter().find(|(c, _)| *c == id).map(|(_, s)| s.clone());
        match secrets {
            Some(s) => guarded(&prop, "apply_detached(clone)", || {
                clone.apply_detached_commit(mls_rs::group::CommitSecrets::from_bytes(&s)?)
            })?,
            None => return Ok(()),
        }
    } else {
        guarded(&prop, "apply_pending(clone)", || clone.apply_pending_commit())?
    };
    if applied.is_err() {
        return Ok(());
    }
    let t1_bytes = clone.export_tree().to_bytes().unwrap_or_default();
    let t0_bytes = w.parties[p].mems[g].group.as_ref().unwrap().export_tree().to_bytes().unwrap_or_default();
    let (Ok(t1), Ok(t0)) = (Tree::parse(&t1_bytes), Tree::parse(&t0_bytes)) else {
        return Ok(());
    };
    let my_leaf = clone.current_member_index();
    // init keys of the key packages this commit adds
    let mut init_keys: Vec<Vec<u8>> = vec![];
    let mut added_leaf_keys: BTreeSet<Vec<u8>> = BTreeSet::new();
    for (_q, wb) in &msg.welcomes {
        let Ok(wm) = MlsMessage::from_bytes(wb) else { continue };
        for kref in wm.welcome_key_package_references() {
            if let Some((_, kp_bytes)) = w.kp_owner.get(&kref.to_vec()) {
                if let Ok(m) = MlsMessage::from_bytes(kp_bytes) {
                    if let Some(kp) = m.into_key_package() {
                        let k = kp.hpke_init_key.as_ref().to_vec();
                        if !init_keys.contains(&k) {
                            init_keys.push(k);
                        }
                    }
                }
            }
        }
    }
    // leaves that are new in t1 (added by this commit)
    for i in 0..t1.full_leaves() {
        if let Some(l) = t1.leaf(i) {
            if l.source == 1 && t0.leaf(i).map(|o| o.raw != l.raw).unwrap_or(true) {
                added_leaf_keys.insert(l.enc_key.clone());
            }
        }
    }
    // expected path-secret recipients: resolutions of the committer's copath in the new tree, minus new leaves
    let mut expected: BTreeSet<Vec<u8>> = BTreeSet::new();
    let has_path = w.ext.commit_has_path.get(&id).copied().unwrap_or(false);
    if has_path {
        for (_, (lo, hi)) in t1.direct_copath(my_leaf) {
            for idx in t1.resolution(lo, hi) {
                if let Some(k) = t1.key_of(idx) {
                    if !added_leaf_keys.contains(&k) {
                        expected.insert(k);
                    }
                }
            }
        }
    }
    // keys that sat at removed leaves or on their blanked direct paths in the old tree
    let mut forbidden: BTreeSet<Vec<u8>> = BTreeSet::new();
    for i in 0..t0.full_leaves() {
        if let Some(l0) = t0.leaf(i) {
            let gone = t1.leaf(i).map(|l1| l1.raw != l0.raw && l1.source == 1).unwrap_or(true);
            if gone && i != my_leaf {
                forbidden.insert(l0.enc_key.clone());
                for ((lo, hi), _) in t0.direct_copath(i) {
                    if let Some(k) = t0.key_of(Tree::idx(lo, hi)) {
                        // only if the node was blanked or re-keyed (it is, unless the key is still in t1)
                        if !t1.all_keys().contains(&k) {
                            forbidden.insert(k);
                        }
                    }
                }
            }
        }
    }
    w.stats.check("hpke-recipients-of-commit");
    let mut seen_path: BTreeSet<Vec<u8>> = BTreeSet::new();
    let mut seen_init: Vec<Vec<u8>> = vec![];
    for ev in &events {
        match ev {
            Ev::HpkeSeal { pk, party, .. } if *party as usize == p => {
                if forbidden.contains(pk) {
                    return Err(viol(
                        w,
                        "secrets-only-to-entitled-keys",
                        "sealed-to-removed-key".into(),
                        format!("P{p} building commit {id}: an HPKE encryption targets a key that belonged to a removed leaf or its blanked direct path"),
                    ));
                }
                if init_keys.contains(pk) {
                    seen_init.push(pk.clone());
                } else if expected.contains(pk) {
                    seen_path.insert(pk.clone());
                } else if added_leaf_keys.contains(pk) {
                    return Err(viol(
                        w,
                        "secrets-only-to-entitled-keys",
                        "path-secret-sealed-to-new-leaf".into(),
                        format!("P{p} building commit {id}: a path secret is encrypted to the leaf key of a member added by the same commit"),
                    ));
                } else {
                    return Err(viol(
                        w,
                        "secrets-only-to-entitled-keys",
                        "sealed-to-unentitled-key".into(),
                        format!(
                            "P{p} building commit {id}: an HPKE encryption targets key {} which is neither in a copath resolution of the new tree nor the init key of an added key package",
                            hex::encode(&pk[..8.min(pk.len())])
                        ),
                    ));
                }
            }
            Ev::HpkeSetupS { party, .. } if *party as usize == p => {
                return Err(viol(
                    w,
                    "secrets-only-to-entitled-keys",
                    "setup-s-in-member-commit".into(),
                    format!("P{p} building member commit {id} performed an HPKE sender setup (only external commits do)"),
                ));
            }
            _ => {}
        }
    }
    if has_path && seen_path != expected {
        return Err(viol(
            w,
            "secrets-only-to-entitled-keys",
            "path-recipients-differ".into(),
            format!(
                "P{p} building commit {id}: path secrets were sealed to {} keys, the copath resolutions of the new tree hold {} keys",
                seen_path.len(),
                expected.len()
            ),
        ));
    }
    let mut a = seen_init.clone();
    a.sort();
    let mut b = init_keys.clone();
    b.sort();
    b.dedup();
    if a != b {
        return Err(viol(
            w,
            "secrets-only-to-entitled-keys",
            "group-secrets-recipients-differ".into(),
            format!(
                "P{p} building commit {id}: joiner secrets were sealed to {} init keys, the commit adds {} key packages",
                a.len(),
                b.len()
            ),
        ));
    }
    if !forbidden.is_empty() {
        w.stats.probe("commit-after-removal-recipients-checked");
    }
    if !added_leaf_keys.is_empty() && has_path {
        w.stats.probe("commit-with-adds-and-path-recipients-checked");
    }
    Ok(())
}

#[allow(dead_code)]
fn _unused(_: Option<Box<dyn CryptoProvider<CipherSuiteProvider = crate::crypto::SimSuite>>>) {}

// ---------------------------------------------------------------------------------------------
// C09 / C06: stored state written by an older version of the library

/// The repository ships a group state stored by an older version (`test_data/legacy_snapshot.mls`) that still
/// holds a pending commit in the old format. A member that comes back from such storage and applies that commit
/// (`apply_pending_commit_backwards_compatible`) must end up with exactly the private keys of its new tree.
pub fn legacy_snapshot_case(w: &mut World) -> VResult<()> {
    if !w.cfg.oracle("private-keys") || w.seed % 8 != 0 || w.parties.is_empty() {
        return Ok(());
    }
    let dir = std::env::var("VERIF_REPO").unwrap_or_else(|_| "/repo".into());
    let Ok(bytes) = std::fs::read(format!("{dir}/mls-rs/test_data/legacy_snapshot.mls")) else {
        return Ok(());
    };
    use mls_rs::GroupStateStorage;
    let mut storage = mls_rs::storage_provider::in_memory::InMemoryGroupStateStorage::new();
    let state = mls_rs_core::group::GroupState {
        id: b"group".to_vec(),
        data: bytes.into(),
    };
    if GroupStateStorage::write(&mut storage, state, vec![], vec![]).is_err() {
        return Ok(());
    }
    let client = mls_rs::Client::builder()
        .crypto_provider(w.parties[0].crypto.clone())
        .identity_provider(mls_rs::identity::basic::BasicIdentityProvider::new())
        .group_state_storage(storage)
        .build();
    let prop = w.cfg.property.clone();
    let loaded = guarded(&prop, "load_group(legacy snapshot)", || client.load_group(b"group"))?;
    let Ok(mut group) = loaded else {
        w.stats.probe("legacy-snapshot-not-loadable-with-this-provider");
        return Ok(());
    };
    if !group.has_pending_commit() {
        return Ok(());
    }
    let before = group.current_epoch();
    let r = guarded(&prop, "apply_pending_commit_backwards_compatible(legacy snapshot)", || {
        group.apply_pending_commit_backwards_compatible()
    })?;
    w.stats.check("legacy-pending-commit-applied");
    if let Err(e) = r {
        return Err(viol(
            w,
            "legacy-stored-state",
            format!("legacy-pending-commit-refused:{}", err_class(&e)),
            format!("the pending commit of the stored state written by an older version could not be applied: {e:?}"),
        ));
    }
    if group.current_epoch() != before + 1 {
        return Err(viol(w, "legacy-stored-state", "legacy-pending-commit-epoch".into(), format!("applying the legacy pending commit moved the group from epoch {before} to {}", group.current_epoch())));
    }
    // the keys it now stores are those of its new tree
    let tree_bytes = group.export_tree().to_bytes().unwrap_or_default();
    let Ok(tree) = Tree::parse(&tree_bytes) else { return Ok(()) };
    let (leaf, keys) = group.verif_private_keys();
    let Some(csp) = w.parties[0].crypto.cipher_suite_provider(group.cipher_suite()) else { return Ok(()) };
    let path = tree.direct_copath(leaf);
    for (pos, key) in keys.iter().enumerate() {
        let node_idx = if pos == 0 {
            2 * leaf
        } else {
            match path.get(pos - 1) {
                Some(((lo, hi), _)) => Tree::idx(*lo, *hi),
                None => continue,
            }
        };
        match (key, tree.key_of(node_idx)) {
            (Some(sk), Some(pk)) => {
                let pk: mls_rs::crypto::HpkePublicKey = pk.into();
                let sk: mls_rs::crypto::HpkeSecretKey = sk.clone().into();
                let ok = match csp.hpke_seal(&pk, b"mlsim c09", None, b"probe") {
                    Ok(ct) => matches!(csp.hpke_open(&ct, &sk, &pk, b"mlsim c09", None), Ok(pt) if &pt[..] == b"probe"),
                    Err(_) => false,
                };
                w.stats.check("legacy-pending-commit-private-key-opens-node-key");
                if !ok {
                    return Err(viol(
                        w,
                        "private-keys-match-tree",
                        "key-does-not-match-node:legacy-pending-commit".into(),
                        format!("after applying the pending commit of a state stored by an older version, the private key at direct-path position {pos} does not open what is sealed to the public key of node {node_idx}"),
                    ));
                }
            }
            (Some(_), None) => {
                return Err(viol(w, "private-keys-match-tree", "key-for-blank-node:legacy-pending-commit".into(), format!("after applying the legacy pending commit a private key is stored for blank node {node_idx}")));
            }
            _ => {}
        }
    }
    w.stats.probe("legacy-stored-state-case");
    Ok(())
}


/// C09 / C02 through the public API: member p seals to the leaf of member q with
/// `safe_encrypt_with_context_to_recipient`; q, and only q, opens it with `safe_decrypt_with_context_for_current_member`.
pub fn do_member_hpke(w: &mut World, p: usize, pick: u64, g: usize) -> VResult<bool> {
    if !w.live(p, g) {
        return Ok(false);
    }
    let Some(epoch) = w.epoch_of(p, g) else { return Ok(false) };
    let peers: Vec<usize> = w.live_members(g).into_iter().filter(|q| *q != p && w.epoch_of(*q, g) == Some(epoch)).collect();
    if peers.is_empty() {
        return Ok(false);
    }
    let q = peers[pick as usize % peers.len()];
    let Some(leaf_q) = w.groups[g].members.get(&epoch).and_then(|m| m.get(&q)).copied() else {
        return Ok(false);
    };
    let prop = w.cfg.property.clone();
    let component = 0x8000 + (pick as u32 & 0xff);
    let ctx = format!("mlsim {pick}").into_bytes();
    let aad = if pick & 1 == 0 { Some(&b"aad"[..]) } else { None };
    let pt = format!("to leaf {leaf_q} in epoch {epoch}").into_bytes();
    let sender = w.parties[p].mems[g].group.as_ref().unwrap();
    let ct = guarded(&prop, "safe_encrypt_with_context_to_recipient", || {
        sender.safe_encrypt_with_context_to_recipient(leaf_q, component, &ctx, aad, &pt)
    })?;
    w.stats.op("member_hpke");
    let ct = match ct {
        Ok(ct) => ct,
        Err(e) => {
            return Err(viol(
                w,
                "member-hpke",
                format!("encrypt-to-member-failed:{}", err_class(&e)),
                format!("P{p} epoch {epoch}: safe_encrypt_with_context_to_recipient(leaf {leaf_q}) failed: {e:?}"),
            ))
        }
    };
    w.stats.check("member-to-member-hpke-opens-at-recipient-only");
    for r in std::iter::once(q).chain(peers.iter().copied().filter(|r| *r != q).take(2)) {
        let grp = w.parties[r].mems[g].group.as_ref().unwrap();
        let res = guarded(&prop, "safe_decrypt_with_context_for_current_member", || {
            grp.safe_decrypt_with_context_for_current_member(component, &ctx, aad, ct.clone())
        })?;
        match (r == q, res) {
            (true, Ok(got)) if got[..] == pt[..] => {}
            (true, other) => {
                return Err(viol(
                    w,
                    "member-hpke",
                    "recipient-cannot-open".into(),
                    format!("epoch {epoch}: P{q} (leaf {leaf_q}) cannot open what P{p} sealed to its leaf through the public API: {:?}", other.map(|v| v.len())),
                ))
            }
            (false, Ok(_)) => {
                return Err(viol(
                    w,
                    "member-hpke",
                    "other-member-opens".into(),
                    format!("epoch {epoch}: P{r} opened a ciphertext that P{p} sealed to leaf {leaf_q} of P{q}"),
                ))
            }
            (false, Err(_)) => {}
        }
    }
    // another context or component does not open it
    let grp = w.parties[q].mems[g].group.as_ref().unwrap();
    let res = guarded(&prop, "safe_decrypt_with_context_for_current_member", || {
        grp.safe_decrypt_with_context_for_current_member(component + 1, &ctx, aad, ct.clone())
    })?;
    if res.is_ok() {
        return Err(viol(
            w,
            "member-hpke",
            "opens-under-other-component".into(),
            format!("epoch {epoch}: P{q} opened a ciphertext under another component id than it was sealed for"),
        ));
    }
    // a blank or out-of-range leaf is no recipient
    let width = w.groups[g].members.get(&epoch).map(|m| m.values().copied().max().unwrap_or(0) + 1).unwrap_or(1);
    let used: BTreeSet<u32> = w.groups[g].members.get(&epoch).map(|m| m.values().copied().collect()).unwrap_or_default();
    let candidates: Vec<u32> = (0..width + 2).filter(|i| !used.contains(i)).collect();
    let bad = candidates[pick as usize % candidates.len()];
    let sender = w.parties[p].mems[g].group.as_ref().unwrap();
    let res = guarded(&prop, "safe_encrypt_with_context_to_recipient", || {
        sender.safe_encrypt_with_context_to_recipient(bad, component, &ctx, aad, &pt)
    })?;
    if res.is_ok() {
        return Err(viol(
            w,
            "member-hpke",
            "sealed-to-blank-leaf".into(),
            format!("P{p} epoch {epoch}: safe_encrypt_with_context_to_recipient({bad}) succeeded although leaf {bad} is blank or outside the tree"),
        ));
    }
    w.ev(format!("member-hpke P{p} -> P{q} g{g} e{epoch} leaf={leaf_q} ok"));
    Ok(true)
}
