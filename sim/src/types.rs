//! Shared types: client configuration alias, actions (the replay artefact), violations, swarm config.

use mls_rs::client_builder::{
    BaseConfig, WithCryptoProvider, WithGroupStateStorage, WithIdentityProvider,
    WithKeyPackageRepo, WithMlsRules, WithPskStore,
};
use serde::{Deserialize, Serialize};

use crate::crypto::{ProviderKind, SimCrypto};
use crate::seams::{
    SimGroupStorage, SimIdentity, SimKpStore, SimPskStore, SimRules, StorageKind,
};

pub type Cfg = WithCryptoProvider<
    SimCrypto,
    WithMlsRules<
        SimRules,
        WithIdentityProvider<
            SimIdentity,
            WithGroupStateStorage<
                SimGroupStorage,
                WithPskStore<SimPskStore, WithKeyPackageRepo<SimKpStore, BaseConfig>>,
            >,
        >,
    >,
>;

pub type SimClient = mls_rs::Client<Cfg>;
pub type SimGroup = mls_rs::Group<Cfg>;

#[derive(Clone, Debug, Serialize, Deserialize, PartialEq, Eq)]
pub struct Violation {
    pub property: String,
    pub oracle: String,
    pub step: u32,
    pub detail: String,
    /// coarse class used to match known findings and to keep the minimiser on the same failure
    pub signature: String,
}

impl Violation {
    pub fn new(property: &str, oracle: &str, signature: String, detail: String) -> Self {
        Violation {
            property: property.to_string(),
            oracle: oracle.to_string(),
            step: 0,
            detail,
            signature,
        }
    }
}

/// mutation of message bytes by the simulated network / disk
#[derive(Clone, Debug, Serialize, Deserialize, PartialEq, Eq)]
pub enum Mutation {
    Flip { pos: u32, bit: u8 },
    Trunc { len: u32 },
    /// prefix of this message up to `at`, then the suffix of message `other` from `at`
    Splice { other: u64, at: u32 },
    /// overwrite bytes at pos
    Set { pos: u32, bytes: Vec<u8> },
    /// insert bytes at pos
    Insert { pos: u32, bytes: Vec<u8> },
    /// rewrite the sender leaf index of a public message
    Resender { to: u32 },
    /// replace the group id field
    None,
}

#[derive(Clone, Debug, Serialize, Deserialize, PartialEq, Eq)]
pub enum PropSpec {
    Add { q: usize },
    Update { new_identity: bool },
    Remove { q: usize },
    SelfRemove,
    ExtPsk { id: u8 },
    ResPsk { back: u8 },
    Gce { val: u8 },
    Custom { val: u8 },
    ReInit { suite: u16 },
    /// proposal built from a template that is invalid for exactly one reason (C10)
    Template { t: u8, q: usize },
}

#[derive(Clone, Debug, Default, Serialize, Deserialize, PartialEq, Eq)]
pub struct CommitSpec {
    pub adds: Vec<usize>,
    pub removes: Vec<usize>,
    pub ext_psks: Vec<u8>,
    pub res_psks: Vec<u8>,
    pub gce: Option<u8>,
    pub custom: Option<u8>,
    pub new_identity: bool,
    pub leaf_ext: Option<u8>,
    pub aad_len: u8,
    pub detached: bool,
    /// list the resumption PSKs before the external ones (C13 / C18: the order of the PSK proposals matters)
    #[serde(default)]
    pub res_first: bool,
    pub reinit: Option<u16>,
    /// per-commit options (buggify knobs)
    pub path_required: bool,
    pub ratchet_tree_ext: bool,
    pub single_welcome: bool,
    pub oob_tree: bool,
    pub allow_ext: bool,
    /// C10: by-value invalid templates (t, q)
    pub templates: Vec<(u8, usize)>,
    /// C03 insider: H4 commit modifier to apply (0 = none)
    pub modifier: u8,
}

#[derive(Clone, Debug, Serialize, Deserialize, PartialEq, Eq)]
pub enum Fate {
    Normal,
    /// deliver and keep a copy in the inbox (duplicate)
    Dup,
    /// remove without delivering
    Drop,
}

#[derive(Clone, Debug, Serialize, Deserialize, PartialEq, Eq)]
pub enum Action {
    Tick { dt: u32 },
    Commit { p: usize, g: usize, spec: CommitSpec },
    Propose { p: usize, g: usize, spec: PropSpec },
    /// the delivery service decides the winner among the candidate commits of the current epoch
    DsPick { g: usize, choice: u32 },
    /// deliver the next commit of the DS log to p; `own_apply`: committer applies its pending commit
    /// directly instead of processing the echo
    DeliverCommit { p: usize, g: usize, own_apply: bool },
    /// p processes the Welcome waiting for it
    Join { p: usize, g: usize },
    /// deliver the k-th queued proposal / application message to p
    Deliver { p: usize, g: usize, k: u32, fate: Fate },
    SendApp { p: usize, g: usize, len: u16, aad_len: u8 },
    Write { p: usize, g: usize },
    Crash { p: usize },
    Reload { p: usize, g: usize },
    ClearPending { p: usize, g: usize },
    ApplyPendingEarly { p: usize, g: usize },
    ExtCommit { p: usize, g: usize, remove_old: bool, psk: Option<u8> },
    /// deliver a losing or already applied commit to p (must be rejected)
    StaleCommit { p: usize, g: usize, k: u32 },
    /// deliver a corrupted copy of message `msg` to p
    Corrupt { p: usize, g: usize, msg: u64, m: Mutation },
    /// deliver message `msg` of group `from_g` to p's group g (cross-group / cross-epoch replay)
    Replay { p: usize, g: usize, msg: u64 },
    /// scenario specific composite step (property-specific drivers interpret it)
    Special { kind: String, a: u64, b: u64, c: u64 },
}

#[derive(Clone, Debug, Serialize, Deserialize, PartialEq, Eq)]
pub struct Step {
    pub n: u32,
    pub a: Action,
}

#[derive(Clone, Debug, Serialize, Deserialize, PartialEq)]
pub struct SwarmCfg {
    pub property: String,
    pub scenario: String,
    pub n_parties: usize,
    pub steps: u32,
    pub suite: u16,
    pub providers: Vec<ProviderKind>,
    pub cross: Option<ProviderKind>,
    pub storage: StorageKind,
    pub retention: u64,
    pub encrypt_handshake: bool,
    pub padding: u8,
    pub write_every: u8,
    /// action weights by name
    pub weights: Vec<(String, u32)>,
    /// enabled fault kinds
    pub faults: Vec<String>,
    /// enabled oracles
    pub oracles: Vec<String>,
    pub same_storage_rejoin: bool,
    pub knobs: Vec<(String, u64)>,
}

impl SwarmCfg {
    pub fn weight(&self, name: &str) -> u32 {
        self.weights
            .iter()
            .find(|(n, _)| n == name)
            .map(|(_, w)| *w)
            .unwrap_or(0)
    }
    pub fn fault(&self, name: &str) -> bool {
        self.faults.iter().any(|f| f == name)
    }
    pub fn oracle(&self, name: &str) -> bool {
        self.oracles.iter().any(|f| f == name)
    }
    pub fn knob(&self, name: &str) -> Option<u64> {
        self.knobs.iter().find(|(n, _)| n == name).map(|(_, v)| *v)
    }
}

#[derive(Clone, Debug, Serialize, Deserialize)]
pub struct ReplayFile {
    pub property: String,
    pub seed: u64,
    pub cfg: SwarmCfg,
    pub actions: Vec<Step>,
    pub violation: Option<Violation>,
    pub note: String,
    /// which build of the simulator produced the file: "default-features" or "self_remove_proposal"
    #[serde(default)]
    pub build: String,
    /// C14: the violation is a disagreement on this primitive call (the replay evaluates the call, not the history:
    /// the key material in it came from a provider's own random generator)
    #[serde(default)]
    pub prim: Option<PrimCase>,
}

/// a disagreement between two providers on one primitive call, with everything needed to evaluate it again
#[derive(Clone, Debug, Serialize, Deserialize, PartialEq, Eq)]
pub struct PrimCase {
    pub op: String,
    pub suite: u16,
    pub primary: String,
    pub cross: String,
    pub args: Vec<String>,
}

pub const BUILD: &str = if cfg!(feature = "self_remove") { "self_remove_proposal" } else { "default-features" };
