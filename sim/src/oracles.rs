//! Property-specific oracles and model expectations, called from the hooks in `world.rs`.

use std::collections::{BTreeMap, BTreeSet};
use std::sync::Arc;

use mls_rs::crypto::SignatureSecretKey;
use mls_rs::error::MlsError;
use mls_rs::group::proposal::Proposal;
use mls_rs::group::{CommitMessageDescription, CommitOutput};
use mls_rs::identity::SigningIdentity;
use mls_rs::{ExtensionList, MlsMessage};

use crate::types::*;
use crate::world::*;

pub type RawProp = Arc<dyn Fn(&mut SimGroup) -> Result<MlsMessage, MlsError>>;

#[derive(Default)]
pub struct OracleState {
    pub new_identities: BTreeMap<u64, (SignatureSecretKey, SigningIdentity)>,
    pub dropped: Vec<(usize, usize, u64)>,
    pub requeued: BTreeSet<(usize, u64)>,
    pub known_hits: Vec<String>,
    /// (party, group, epoch): the party crashed with unwritten private sends in that epoch, so its
    /// sender ratchet rolled back and receivers may legitimately reject what it sends afterwards
    pub rolled_back: BTreeSet<(usize, usize, u64)>,
    /// (party, group, proposal id): the application cleared the party's proposal cache while it held this proposal
    pub cache_cleared: BTreeSet<(usize, usize, u64)>,
    pub twins: BTreeMap<(usize, usize), Twin>,
    pub at_write: BTreeMap<(usize, usize), Vec<(&'static str, Vec<u8>)>>,
    pub leftmost_checked: BTreeSet<(usize, u64)>,
    pub fresh_checked: BTreeSet<(usize, u64)>,
    pub commit_has_path: BTreeMap<u64, bool>,
    pub old_leaf_keys: BTreeMap<(usize, usize), (Vec<u8>, u64)>,
    pub c13: crate::c13::C13State,
    /// (key, nonce) of every AEAD encryption of the world -> where it was first used
    pub seal_pairs: BTreeMap<(Vec<u8>, Vec<u8>), String>,
    pub bursts: u32,
    pub cur_g: usize,
    pub final_written: BTreeSet<(usize, usize)>,
    pub observers: Vec<crate::observer::Observer>,
    pub ext_sender: Option<(SignatureSecretKey, SigningIdentity)>,
    /// the external sender's previous entry (same credential, the key it used before a rotation), listed first
    pub ext_sender_old: Option<SigningIdentity>,
    pub ext_proposals: BTreeSet<u64>,
    pub codec_seq: u64,
    pub c10_unused: BTreeMap<u64, Vec<String>>,
    pub c10_applied: BTreeMap<u64, (usize, Vec<String>)>,
    pub c10_cache_at_process: BTreeMap<(usize, u64), BTreeSet<u64>>,
}

#[derive(Default)]
pub struct CommitExtras {
    pub res_psk_epochs: Vec<u64>,
    pub raw_proposals: Vec<Proposal>,
    pub reinit_gid: Vec<u8>,
}

#[derive(Default)]
pub struct PropExtras {
    pub res_epoch: u64,
    pub reinit_gid: Vec<u8>,
    pub raw: Option<RawProp>,
}

/// state captured before an operation (H1 component-wise state and friends)
#[derive(Default)]
pub struct Pre {
    pub state: Option<Vec<(&'static str, Vec<u8>)>>,
    pub clone: Option<SimGroup>,
    pub disk: Option<crate::seams::StoredView>,
    pub what: String,
}

pub fn h1(group: &SimGroup) -> Result<Vec<(&'static str, Vec<u8>)>, MlsError> {
    group.verif_state()
}

/// Component-wise comparison of two H1 states. `repo_updates` follows the rule of DESIGN §5: an entry
/// that is new after the call is a cache fill and must equal the stored record; entries present before
/// must be byte-identical.
pub fn diff_states(
    before: &[(&'static str, Vec<u8>)],
    after: &[(&'static str, Vec<u8>)],
    repo_after: Option<(&SimGroup, &crate::seams::SimGroupStorage, &[u8])>,
) -> Vec<&'static str> {
    let mut d = vec![];
    for (name, b) in before {
        let a = after.iter().find(|(n, _)| n == name).map(|(_, v)| v);
        if a == Some(b) {
            continue;
        }
        if *name == "repo_updates" {
            if let Some((group, store, gid)) = repo_after {
                if let Ok((_, upd_after)) = group.verif_repo_pending() {
                    // decode `before` list is not needed: compare through ids
                    let before_ids = decode_repo_list(b);
                    let mut ok = true;
                    for (id, bytes) in &upd_after {
                        match before_ids.iter().find(|(i, _)| i == id) {
                            Some((_, old)) => {
                                if old != bytes {
                                    ok = false;
                                }
                            }
                            None => {
                                let disk = store
                                    .view(gid)
                                    .epochs
                                    .get(id)
                                    .and_then(|d| mls_rs::group::verif_hooks::canonical_epoch_record(d).ok());
                                if disk.as_ref() != Some(bytes) {
                                    ok = false;
                                }
                            }
                        }
                    }
                    if before_ids.iter().any(|(i, _)| !upd_after.iter().any(|(j, _)| j == i)) {
                        ok = false;
                    }
                    if ok {
                        continue;
                    }
                }
            }
        }
        d.push(*name);
    }
    d
}

/// decode the MLS encoding of Vec<(u64, Vec<u8>)> produced by the H1 hook
fn decode_repo_list(b: &[u8]) -> Vec<(u64, Vec<u8>)> {
    use mls_rs::mls_rs_codec::MlsDecode;
    Vec::<(u64, Vec<u8>)>::mls_decode(&mut &b[..]).unwrap_or_default()
}

pub fn state_oracle_on(w: &World) -> bool {
    w.cfg.oracle("state-unchanged")
}

fn capture(w: &World, p: usize, g: usize, what: &str) -> Pre {
    let mut pre = Pre {
        what: what.to_string(),
        ..Default::default()
    };
    if let Some(group) = w.mem_ref(p, g).and_then(|m| m.group.as_ref()) {
        pre.state = h1(group).ok();
        pre.clone = Some(group.clone());
    }
    pre
}

/// after an operation returned Err: the member must be exactly as before
pub fn check_unchanged(
    w: &mut World,
    p: usize,
    g: usize,
    pre: Pre,
    kind: &str,
    cls: &str,
    detail_ctx: String,
) -> VResult<()> {
    let Some(before) = pre.state else { return Ok(()) };
    let gid = w.groups[g].gid.clone();
    let (diffs, after_ok) = {
        let Some(group) = w.mem_ref(p, g).and_then(|m| m.group.as_ref()) else {
            return Ok(());
        };
        match h1(group) {
            Ok(after) => (
                diff_states(&before, &after, Some((group, &w.parties[p].gstore, &gid))),
                true,
            ),
            Err(_) => (vec!["<state not encodable>"], false),
        }
    };
    let _ = after_ok;
    w.stats.check("state-unchanged-after-err");
    *w.stats
        .probes
        .entry(format!("rejected:{kind}:{cls}"))
        .or_default() += 1;
    if diffs.is_empty() {
        return Ok(());
    }
    let signature = format!("changed:{}:{kind}:{cls}", diffs.join("+"));
    let prop = w.cfg.property.clone();
    if w.known.iter().any(|k| *k == signature) {
        // a recorded finding: note it, undo the damage so it does not cascade, carry on
        w.ext.known_hits.push(signature.clone());
        if !crate::known::no_restore(&signature) {
            if let Some(c) = pre.clone {
                w.mem(p, g).group = Some(c);
            }
        }
        return Ok(());
    }
    Err(Violation::new(
        &prop,
        "state-unchanged-after-error",
        signature,
        format!(
            "P{p}: {} returned Err({cls}) but the member's state changed in component(s) {:?} ({detail_ctx})",
            pre.what, diffs
        ),
    ))
}

/// stored bytes in canonical form (the ratchet key history inside a snapshot or epoch record is written in
/// hash-map iteration order, so equal states do not always give equal stored bytes)
pub fn canon_view(mut v: crate::seams::StoredView) -> crate::seams::StoredView {
    if let Some(s) = &v.state {
        if let Ok(c) = mls_rs::group::verif_hooks::canonical_snapshot(s) {
            v.state = Some(c);
        }
    }
    for (_, e) in v.epochs.iter_mut() {
        if let Ok(c) = mls_rs::group::verif_hooks::canonical_epoch_record(e) {
            *e = c;
        }
    }
    v
}

/// C06: a twin of party p's membership in group g: loaded from a fork of p's disk by a fresh client, then
/// driven in lock-step with the original (every library call on the original is repeated on the twin).
pub struct Twin {
    pub group: SimGroup,
    pub gstore: crate::seams::SimGroupStorage,
    pub kpstore: crate::seams::SimKpStore,
    pub ctx: Arc<crate::crypto::CryptoCtx>,
    pub since_step: u32,
    pub ops: u32,
}

/// every library call of the simulator on a member goes through here: provider-fault enumeration (C15 / C04)
/// first, then the same call is repeated on the member's twin, if it has one (C06)
pub fn lib_call<T>(
    w: &mut World,
    p: usize,
    g: Option<usize>,
    what: &str,
    mut call: impl FnMut(&mut World) -> VResult<Result<T, MlsError>>,
) -> VResult<Result<T, MlsError>> {
    let r = faulted(w, p, g, what, &mut call)?;
    let Some(g) = g else { return Ok(r) };
    // a party's crypto PRNG is shared by all its groups: a call in one group moves it on, so twins the party
    // has in other groups can no longer follow byte for byte
    w.ext.twins.retain(|(q, gg), _| !(*q == p && *gg != g));
    if !w.ext.twins.contains_key(&(p, g)) {
        return Ok(r);
    }
    if w.mem_ref(p, g).map(|m| m.group.is_none()).unwrap_or(true) {
        return Ok(r);
    }
    let prop = w.cfg.property.clone();
    let mut twin = w.ext.twins.remove(&(p, g)).unwrap();
    if what == "commit" && w.parties[p].mems[g].cached.len() >= 2 {
        // the order of by-reference proposals in a commit follows the iteration order of a randomly keyed
        // hash map, which legitimately differs between two objects: the twin cannot follow from here
        w.stats.probe("twin-dropped:proposal-order-not-reproducible");
        return Ok(r);
    }
    // run the same call on the twin
    let orig = w.parties[p].mems[g].group.take();
    w.parties[p].mems[g].group = Some(twin.group);
    let rt = call(w);
    twin.group = w.parties[p].mems[g].group.take().expect("twin group");
    w.parties[p].mems[g].group = orig;
    let rt = rt?;
    twin.ops += 1;
    w.stats.check("twin-lockstep");
    if r.is_ok() != rt.is_ok() {
        return Err(Violation::new(
            &prop,
            "reloaded-twin-lockstep",
            format!("twin-outcome-differs:{what}"),
            format!(
                "P{p}: {what} returned {} on the original and {} on the twin that was loaded from storage at step {}",
                if r.is_ok() { "Ok" } else { "Err" },
                if rt.is_ok() { "Ok" } else { "Err" },
                twin.since_step
            ),
        ));
    }
    let a = w.parties[p].mems[g].group.as_ref().and_then(|x| h1(x).ok());
    let b = h1(&twin.group).ok();
    if let (Some(a), Some(b)) = (a, b) {
        let mut d = diff_states(&a, &b, None);
        d.retain(|c| *c != "repo_kp_removal");
        if !d.is_empty() {
            return Err(Violation::new(
                &prop,
                "reloaded-twin-lockstep",
                format!("twin-diverged:{}:{what}", d.join("+")),
                format!(
                    "P{p}: after {what} the member and its twin (loaded from storage at step {}, {} operations ago) differ in {:?} [{}]",
                    twin.since_step,
                    twin.ops,
                    d,
                    d.iter()
                        .map(|c| {
                            let x = a.iter().find(|(n, _)| n == c).map(|(_, v)| v.clone()).unwrap_or_default();
                            let y = b.iter().find(|(n, _)| n == c).map(|(_, v)| v.clone()).unwrap_or_default();
                            let at = x.iter().zip(y.iter()).position(|(u, v)| u != v).unwrap_or(x.len().min(y.len()));
                            format!("{c}: len {} vs {}, first difference at byte {at}", x.len(), y.len())
                        })
                        .collect::<Vec<_>>()
                        .join("; ")
                ),
            ));
        }
    }
    if what == "write_to_storage" && r.is_ok() {
        let gid = w.groups[g].gid.clone();
        let va = canon_view(w.parties[p].gstore.view(&gid));
        let vb = canon_view(twin.gstore.view(&gid));
        if va != vb {
            return Err(Violation::new(
                &prop,
                "reloaded-twin-lockstep",
                "twin-disk-differs".into(),
                format!(
                    "P{p}: after write_to_storage the stored history of the member and of its twin differ: epochs {:?} vs {:?}, snapshot equal = {}",
                    va.epochs.keys().collect::<Vec<_>>(),
                    vb.epochs.keys().collect::<Vec<_>>(),
                    va.state == vb.state
                ),
            ));
        }
    }
    w.ext.twins.insert((p, g), twin);
    Ok(r)
}

/// after a successful write: (1) what a fresh client loads from a fork of the disk must equal the member,
/// (2) remember the state for the crash oracle, (3) possibly keep the loaded group as a lock-step twin
pub fn c06_after_write(w: &mut World, p: usize, g: usize) -> VResult<()> {
    if !w.cfg.oracle("restore") {
        return Ok(());
    }
    let prop = w.cfg.property.clone();
    let gid = w.groups[g].gid.clone();
    let saved = {
        let group = w.parties[p].mems[g].group.as_ref().unwrap();
        h1(group).map_err(|e| Violation::new(&prop, "restore", "h1".into(), format!("{e:?}")))?
    };
    w.ext.at_write.insert((p, g), saved.clone());
    // fork the whole party world: stores and crypto PRNG
    let party = &w.parties[p];
    let faults: crate::seams::Faults = Default::default();
    let gstore = party.gstore.fork(faults.clone());
    let kpstore = party.kpstore.fork(faults.clone());
    let pskstore = party.pskstore.fork(faults.clone());
    let ctx = party.ctx.fork();
    let crypto = party.crypto.with_ctx(ctx.clone());
    let client = make_client(
        &crypto,
        &party.identity,
        &party.rules,
        &gstore,
        &kpstore,
        &pskstore,
        &party.signing_identity,
        &party.signer,
        w.suite,
    );
    // (knob tree-oob: the state was written without its tree; the application supplies the tree it exported)
    let tree_now = if w.oob() {
        w.parties[p].mems[g].group.as_ref().and_then(|g| g.export_tree().to_bytes().ok())
    } else {
        None
    };
    if tree_now.is_some() {
        w.stats.probe("load-with-tree-from-the-application");
    }
    let loaded = guarded(&prop, "load_group(fork)", || crate::world::load_group_oob(&client, &gid, tree_now.as_deref()))?;
    w.stats.check("load-equals-saved");
    let loaded = match loaded {
        Ok(l) => l,
        Err(e) => {
            return Err(Violation::new(
                &prop,
                "restore",
                format!("load-after-write-failed:{}", err_class(&e)),
                format!("P{p}: load_group on a copy of the disk right after write_to_storage failed: {e:?}"),
            ))
        }
    };
    let lh = h1(&loaded).map_err(|e| Violation::new(&prop, "restore", "h1".into(), format!("{e:?}")))?;
    // `repo_kp_removal` (the reference of the key package used to join) is not part of a snapshot: it is spent
    // after the first write and only makes later writes repeat a no-op deletion
    let mut d = diff_states(&saved, &lh, None);
    d.retain(|c| *c != "repo_kp_removal");
    if !d.is_empty() {
        return Err(Violation::new(
            &prop,
            "loaded-equals-saved",
            format!("loaded-differs:{}", d.join("+")),
            format!(
                "P{p}: the group loaded from storage differs from the group that was saved in component(s) {:?} (pending commit {}, cached proposals {})",
                d,
                w.parties[p].mems[g].pending.is_some(),
                w.parties[p].mems[g].cached.len()
            ),
        ));
    }
    if w.parties[p].mems[g].pending.is_some() {
        w.stats.probe("reload-with-pending-commit");
    }
    if !w.parties[p].mems[g].cached.is_empty() {
        w.stats.probe("reload-with-cached-proposals");
    }
    // lock-step twin (kept for a limited number of members per world)
    let max_twins = w.cfg.knob("twins").unwrap_or(0) as usize;
    if !w.ext.twins.contains_key(&(p, g)) && w.ext.twins.len() < max_twins {
        w.stats.probe("twin-created");
        w.ext.twins.insert(
            (p, g),
            Twin {
                group: loaded,
                gstore,
                kpstore,
                ctx,
                since_step: w.step_no,
                ops: 0,
            },
        );
    }
    Ok(())
}

pub fn c06_after_reload(w: &mut World, p: usize, g: usize) -> VResult<()> {
    if !w.cfg.oracle("restore") {
        return Ok(());
    }
    let prop = w.cfg.property.clone();
    // the twin mirrors a process that did not crash: it no longer corresponds to this member
    w.ext.twins.remove(&(p, g));
    let Some(want) = w.ext.at_write.get(&(p, g)).cloned() else {
        return Ok(());
    };
    let got = {
        let group = w.parties[p].mems[g].group.as_ref().unwrap();
        h1(group).map_err(|e| Violation::new(&prop, "restore", "h1".into(), format!("{e:?}")))?
    };
    w.stats.check("crash-reload-equals-last-write");
    let mut d = diff_states(&want, &got, None);
    d.retain(|c| *c != "repo_kp_removal");
    if !d.is_empty() {
        return Err(Violation::new(
            &prop,
            "crash-reload-equals-last-write",
            format!("reload-differs:{}", d.join("+")),
            format!("P{p}: after a crash load_group returned a state that differs from the last written one in {:?}", d),
        ));
    }
    Ok(())
}

/// what the disk of party p holds for group g (group store view + key packages present)
pub fn disk_view(w: &World, p: usize, g: Option<usize>) -> (Option<crate::seams::StoredView>, Vec<Vec<u8>>) {
    let gv = g.map(|g| w.parties[p].gstore.view(&w.groups[g].gid));
    (gv, w.parties[p].kpstore.present_ids())
}

/// C15 (and the A-ID-ERR part of C04): run one library operation of party p under injected provider
/// faults. With the `storage-faults` oracle every storage call index k of the operation is failed in turn,
/// one failed attempt after the other on the same member (so every attempt starts from the state the
/// previous failed attempt left behind): each faulted attempt must return Err and leave the member and
/// its disk exactly as before; the first attempt in which no fault fires is the fault-free execution whose
/// result the run continues with. For operations that do not write to disk the fault-free execution is
/// then repeated from the saved pre-operation member and must give the identical state ("same state as a
/// run without the fault"). The party's crypto PRNG is rewound before every attempt (DESIGN §6.C15).
pub fn faulted<T>(
    w: &mut World,
    p: usize,
    g: Option<usize>,
    what: &str,
    mut call: impl FnMut(&mut World) -> VResult<Result<T, MlsError>>,
) -> VResult<Result<T, MlsError>> {
    let storage = w.cfg.oracle("storage-faults");
    let identity = w.cfg.oracle("identity-faults");
    let crypto = w.cfg.oracle("crypto-faults");
    if !storage && !identity && !crypto {
        return call(w);
    }
    // (the non-atomic write_to_storage is C15's recorded finding; other properties that borrow the storage faults
    // leave that operation alone)
    if storage && w.cfg.knob("no-write-faults").is_some() && what == "write_to_storage" {
        return call(w);
    }
    let prop = w.cfg.property.clone();
    let kind = if storage { "S-ERR" } else if identity { "A-ID-ERR" } else { "C-ERR" };
    let r0 = w.parties[p].ctx.get_prng();
    let live_g = g.filter(|g| w.mem_ref(p, *g).map(|m| m.group.is_some()).unwrap_or(false));
    let s0 = live_g.and_then(|g| w.parties[p].mems[g].group.as_ref().and_then(|x| h1(x).ok()));
    let g0 = live_g.and_then(|g| w.parties[p].mems[g].group.clone());
    let d0 = disk_view(w, p, g);
    let max_k = w.cfg.knob("max-fault-index").unwrap_or(16) as u32;
    // sampled mode (identity faults in C04): a single fault index drawn from the step hash
    let only = w
        .cfg
        .knob("sample-faults")
        .map(|m| (crate::prng::mix(&[w.seed, w.step_no as u64, 0xfa17]) % m.max(1)) as u32);
    let mut k = 0u32;
    loop {
        let plan: Vec<u32> = match only {
            Some(o) if k == 0 => vec![o],
            Some(_) => vec![],
            None if k <= max_k => vec![k],
            None => vec![],
        };
        if storage {
            crate::seams::faults_begin(&w.parties[p].faults, &plan);
        } else if identity {
            let mut c = w.parties[p].identity.ctl.lock().unwrap();
            c.counting = true;
            c.calls = 0;
            c.fired = 0;
            c.fail_at = plan.iter().copied().collect();
        } else {
            crate::crypto::cfault_begin(plan.first().copied());
        }
        w.parties[p].ctx.set_prng(r0.clone());
        let r = call(w);
        let mut crypto_site = "";
        let (calls, fired, log) = if storage {
            crate::seams::faults_end(&w.parties[p].faults)
        } else if identity {
            let mut c = w.parties[p].identity.ctl.lock().unwrap();
            c.counting = false;
            c.fail_at.clear();
            (c.calls, c.fired, vec![])
        } else {
            let (calls, fired, site) = crate::crypto::cfault_end();
            crypto_site = site;
            (calls, fired, vec![])
        };
        let r = r?;
        k += 1;
        if fired == 0 {
            // the fault-free execution
            *w.stats
                .probes
                .entry(format!("provider-calls:{what}:{calls}"))
                .or_default() += 1;
            let wrote = disk_view(w, p, g) != d0;
            if r.is_ok() && !wrote && k > 1 {
                if let (Some(g), Some(g0)) = (live_g, g0) {
                    // reference: the same operation from the saved pre-operation member, no fault ever injected
                    let after_faults = w.parties[p].mems[g].group.as_ref().and_then(|x| h1(x).ok());
                    let keep = w.parties[p].mems[g].group.take();
                    w.parties[p].mems[g].group = Some(g0);
                    let prng_after = w.parties[p].ctx.get_prng();
                    w.parties[p].ctx.set_prng(r0.clone());
                    // (what the reference execution seals is a repetition by construction: keep it out of the record)
                    let kept = crate::crypto::rec_take_events();
                    let r_ref = call(w);
                    let _ = crate::crypto::rec_take_events();
                    crate::crypto::rec_put_events(kept);
                    let r_ref = r_ref?;
                    let reference = w.parties[p].mems[g].group.as_ref().and_then(|x| h1(x).ok());
                    w.parties[p].mems[g].group = keep;
                    w.parties[p].ctx.set_prng(prng_after);
                    w.stats.check("same-as-fault-free-run");
                    if let (Some(a), Some(b), true) = (after_faults, reference, r_ref.is_ok()) {
                        let d = diff_states(&b, &a, None);
                        if !d.is_empty() {
                            return Err(Violation::new(
                                &prop,
                                "same-state-as-fault-free-run",
                                format!("differs-from-fault-free:{}:{what}", d.join("+")),
                                format!(
                                    "P{p}: after {} failed attempt(s) the repeated {what} succeeded but ends in a different state than a run without the fault: components {:?}",
                                    k - 1,
                                    d
                                ),
                            ));
                        }
                    }
                }
            }
            return Ok(r);
        }
        // a fault fired in this attempt
        w.stats.fault(kind);
        // what the failed attempt sealed never left the member: it is not part of the recorded crypto history (the
        // repeated attempt starts from the same PRNG state and may legitimately derive the same key and nonce)
        if r.is_err() {
            let _ = crate::crypto::rec_take_events();
        }
        let site = log
            .get(plan[0] as usize)
            .copied()
            .unwrap_or(if storage { "?" } else if identity { "identity" } else { crypto_site });
        *w.stats.probes.entry(format!("fault-site:{what}:{site}")).or_default() += 1;
        match &r {
            Ok(_) if !storage => {
                // an identity-provider (or crypto-provider) error while validating a by-reference proposal makes
                // the committer or receiver drop that proposal, like any other invalid by-reference proposal: the
                // operation legitimately succeeds
                w.stats.probe(&format!("{}-error-absorbed:{what}", if identity { "identity" } else { "crypto" }));
                return Ok(r);
            }
            Ok(_) => {
                return Err(Violation::new(
                    &prop,
                    "provider-error-surfaces",
                    format!("error-swallowed:{what}:{site}"),
                    format!(
                        "P{p}: {what} returned Ok although {kind} was injected at call {plan:?} ({site}): the provider error was swallowed"
                    ),
                ));
            }
            Err(e) => {
                let cls = err_class(e);
                w.ev(format!("  fault {kind}{plan:?} at {site} in {what} of P{p}: err {cls}"));
                if let (Some(g), Some(before)) = (live_g, s0.clone()) {
                    let pre = Pre {
                        state: Some(before),
                        clone: g0.clone(),
                        disk: None,
                        what: format!("{what} with {kind} at call {plan:?} ({site})"),
                    };
                    check_unchanged(w, p, g, pre, &format!("fault:{what}:{site}"), &cls, String::new())?;
                    // C09: whatever the failed operation did, the stored private keys still belong to the tree
                    if w.cfg.oracle("private-keys") && w.mem_ref(p, g).map(|m| m.group.is_some()).unwrap_or(false) {
                        crate::treeor::c09_on_epoch(w, p, g, &format!("failed {what} ({site})"))?;
                    }
                }
                let d1 = disk_view(w, p, g);
                if d1 != d0 {
                    let sig = format!("disk-changed:{what}:{site}");
                    if w.known.iter().any(|k| *k == sig) {
                        w.ext.known_hits.push(sig);
                    } else {
                        return Err(Violation::new(
                            &prop,
                            "disk-unchanged-after-error",
                            sig,
                            format!(
                                "P{p}: {what} returned Err({cls}) after {kind} at call {plan:?} ({site}) but the stored history / key-package store changed: group view equal={}, key packages {} -> {}",
                                d1.0 == d0.0,
                                d0.1.len(),
                                d1.1.len()
                            ),
                        ));
                    }
                }
            }
        }
    }
}

pub fn gce_list(v: u8) -> ExtensionList {
    let mut l = ExtensionList::new();
    l.set(mls_rs::Extension::new(
        mls_rs::extension::ExtensionType::new(0xF001),
        vec![v; (v % 5) as usize + 1],
    ));
    l
}

pub fn leaf_ext_list(v: u8) -> ExtensionList {
    let mut l = ExtensionList::new();
    l.set(mls_rs::Extension::new(
        mls_rs::extension::ExtensionType::new(0xF001),
        vec![v; 2],
    ));
    l
}

pub fn clear_modifiers() {}

pub fn on_epoch(w: &mut World, p: usize, g: usize, how: &str) -> VResult<()> {
    crate::treeor::c08_on_epoch(w, p, g, how)?;
    crate::treeor::c09_on_epoch(w, p, g, how)?;
    crate::c13::on_epoch(w, p, g, how)?;
    Ok(())
}

/// C02 oracle B: a party that was removed keeps its old group object; every message of a later epoch fed to it
/// must be rejected and must not move it
pub fn feed_removed(w: &mut World, g: usize, id: u64) -> VResult<()> {
    if !w.cfg.oracle("removed-cannot-follow") {
        return Ok(());
    }
    let prop = w.cfg.property.clone();
    let msg = w.msgs[&id].clone();
    let now = w.now();
    for q in 0..w.parties.len() {
        let Some(obj) = w.parties[q].mems.get(g).and_then(|m| m.removed_obj.clone()) else {
            continue;
        };
        let e0 = obj.current_epoch();
        if msg.epoch <= e0 {
            continue;
        }
        let mut obj = obj;
        let bytes = msg.bytes.clone();
        let r = guarded(&prop, "process_incoming_message(removed member)", || {
            obj.process_incoming_message_with_time(MlsMessage::from_bytes(&bytes)?, now)
        })?;
        w.stats.check("removed-member-cannot-process");
        if r.is_ok() || obj.current_epoch() != e0 {
            return Err(Violation::new(
                &prop,
                "removed-cannot-follow",
                format!("removed-member-processed:{:?}", msg.kind),
                format!(
                    "P{q}, removed from g{g} after epoch {e0}, processed {:?} message {id} of epoch {} (result ok = {}, its epoch is now {})",
                    msg.kind,
                    msg.epoch,
                    r.is_ok(),
                    obj.current_epoch()
                ),
            ));
        }
        *w.stats.probes.entry(format!("removed-rejects:{:?}", msg.kind)).or_default() += 1;
        // it must not know any later epoch authenticator
        if let Ok(a) = obj.epoch_authenticator() {
            for (e, rec) in w.groups[g].records.range(e0 + 1..) {
                if rec.auth == a.as_bytes() {
                    return Err(Violation::new(
                        &prop,
                        "removed-cannot-follow",
                        "removed-member-knows-later-authenticator".into(),
                        format!("P{q}, removed after epoch {e0}, holds the epoch authenticator of epoch {e}"),
                    ));
                }
            }
        }
        w.parties[q].mems[g].removed_obj = Some(obj);
    }
    Ok(())
}

pub fn after_step(w: &mut World) -> VResult<()> {
    // provider disagreements (C14) and mirror divergences (C06/C19) surface here
    let cross = crate::crypto::rec_take_cross_violations();
    if let Some(c) = cross.first() {
        return Err(Violation::new(
            &w.cfg.property,
            "provider-cross-check",
            format!("cross:{}", c.split(' ').nth(3).unwrap_or("")),
            c.clone(),
        ));
    }
    for p in 0..w.parties.len() {
        let mv = std::mem::take(&mut w.parties[p].faults.lock().unwrap().mirror_violations);
        if let Some(m) = mv.first() {
            return Err(Violation::new(
                &w.cfg.property,
                "storage-mirror",
                "mirror-divergence".into(),
                format!("P{p}: {m}"),
            ));
        }
    }
    Ok(())
}

pub fn apply_mutation(orig: &[u8], m: &Mutation, other: Option<&[u8]>) -> Vec<u8> {
    let mut b = orig.to_vec();
    match m {
        Mutation::Flip { pos, bit } => {
            if !b.is_empty() {
                let i = *pos as usize % b.len();
                b[i] ^= 1 << (bit % 8);
            }
        }
        Mutation::Trunc { len } => {
            if !b.is_empty() {
                b.truncate(*len as usize % b.len());
            }
        }
        Mutation::Splice { at, .. } => {
            if let Some(o) = other {
                let n = b.len().min(o.len());
                if n > 0 {
                    let i = *at as usize % n;
                    b.truncate(i);
                    b.extend_from_slice(&o[i..]);
                }
            }
        }
        Mutation::Set { pos, bytes } => {
            for (k, v) in bytes.iter().enumerate() {
                let i = *pos as usize + k;
                if i < b.len() {
                    b[i] = *v;
                }
            }
        }
        Mutation::Insert { pos, bytes } => {
            let i = (*pos as usize).min(b.len());
            let tail = b.split_off(i);
            b.extend_from_slice(bytes);
            b.extend_from_slice(&tail);
        }
        Mutation::Resender { .. } | Mutation::None => {}
    }
    b
}

pub fn mutation_kind(m: &Mutation) -> &'static str {
    match m {
        Mutation::Flip { .. } => "N-FLIP",
        Mutation::Trunc { .. } => "N-TRUNC",
        Mutation::Splice { .. } => "N-SPLICE",
        Mutation::Set { .. } => "N-SET",
        Mutation::Insert { .. } => "N-LEN",
        Mutation::Resender { .. } => "N-RESENDER",
        Mutation::None => "none",
    }
}

/// deliver a corrupted copy of message `msg` to p: must be rejected (C03), never panic, and leave p
/// unchanged (C04)
pub fn do_corrupt(w: &mut World, p: usize, g: usize, msg: u64, m: &Mutation) -> VResult<bool> {
    if !w.live(p, g) {
        return Ok(false);
    }
    let Some(orig) = w.msgs.get(&msg).cloned() else {
        return Ok(false);
    };
    let other = match m {
        Mutation::Splice { other, .. } => match w.msgs.get(other) {
            Some(o) => Some(o.bytes.clone()),
            None => return Ok(false),
        },
        _ => None,
    };
    let bytes = apply_mutation(&orig.bytes, m, other.as_deref());
    if bytes == orig.bytes || other.as_deref() == Some(&bytes[..]) {
        return Ok(false);
    }
    // the genuine message followed by other bytes (a splice point in its last bytes that happens to hit equal
    // bytes): MlsMessage::from_bytes reads one message and leaves what follows to the caller, so this is the
    // genuine message, not a modified one (C12 checks that exactly the encoded bytes are consumed)
    if bytes.starts_with(&orig.bytes) {
        return Ok(false);
    }
    let prop = w.cfg.property.clone();
    let epoch = w.epoch_of(p, g).unwrap();
    let kind = mutation_kind(m);
    w.stats.fault(kind);
    let pre = before_op(w, p, g, "process_incoming_message(corrupted copy)")?;
    let res = w.process(p, g, &bytes, "process_corrupted")?;
    match res {
        Ok(_) => Err(Violation::new(
            &prop,
            "modified-message-rejected",
            format!("accepted-modified:{:?}:{kind}", orig.kind),
            format!(
                "P{p} (epoch {epoch}) accepted a modified copy ({m:?}) of {:?} message {msg} sent in epoch {} by P{}",
                orig.kind, orig.epoch, orig.sender
            ),
        )),
        Err(e) => {
            let cls = err_class(&e);
            w.ev(format!(
                "corrupt P{p} g{g} e{epoch} msg={msg} ({:?} e{}) {kind} err {cls}",
                orig.kind, orig.epoch
            ));
            w.stats.result(&format!("corrupt:err:{cls}"));
            let k = format!(
                "corrupt-{}{}",
                match orig.kind {
                    MsgKind::Commit => "commit",
                    MsgKind::Proposal => "proposal",
                    MsgKind::App => "app",
                },
                if orig.private { "-private" } else { "-public" }
            );
            after_rejected(w, p, g, msg, &k, &cls, pre)?;
            Ok(true)
        }
    }
}

pub fn do_replay(_w: &mut World, _p: usize, _g: usize, _msg: u64) -> VResult<bool> {
    Ok(false)
}

pub fn do_special(w: &mut World, kind: &str, a: u64, b: u64, c: u64) -> VResult<bool> {
    match kind {
        "byz" => do_byz_commit(w, a as usize, 0, b as u8, c as u8),
        "apply_detached" => do_apply_detached(w, a as usize, c as usize, b),
        "bad_join" => do_bad_join(w, a, b as usize, c as usize),
        "branch" => crate::c17::do_branch(w, a as usize, b, c),
        "forge" if b >= 14 => crate::c10::do_forge_update(w, a as usize, 0, c as usize, None),
        "update_clash" => crate::c10::do_update_clash(w, a as usize, 0, b),
        "forge_ext" => crate::c10::do_forge_ext_update(w, 0, a as usize),
        "forge_ref" => crate::c10::do_forge_ref_add(w, a as usize, c as usize, b),
        "custom_type" => crate::codec::do_custom_type(w, a as usize, c as usize, b),
        "psk_rotate" => do_psk_rotate(w, a, b),
        "crafted_verify" => do_crafted_verify(w, a as usize, b),
        "forge" => crate::c10::do_forge(w, a as usize, 0, b, c as usize),
        "sflip" => crate::codec::do_stored_flip(w, a as usize, c as usize, b),
        "observe" => crate::observer::do_observe(w, a as usize, b),
        "obs_feed" => crate::observer::do_obs_feed(w, a as usize, b),
        "x509_case" => crate::x509sim::do_x509_case(w, a, b, c),
        "nm_propose" => do_nm_propose(w, a as usize, b as usize),
        "xgroup" => do_xgroup(w, a as usize, b),
        "late_seq" => do_late_seq(w, a as usize, b as usize),
        "clear_cache" => do_clear_cache(w, a as usize, b as usize),
        "member_hpke" => crate::treeor::do_member_hpke(w, a as usize, b, c as usize),
        "obs_snapshot" => crate::observer::do_obs_snapshot(w, a as usize),
        "obs_stale_ref" => crate::observer::do_obs_stale_ref(w, a as usize, b),
        "obs_propose" => crate::observer::do_obs_propose(w, a as usize, b, c as usize),
        "obs_corrupt" => {
            let m = if c & 1 == 0 {
                Mutation::Flip { pos: (c >> 4) as u32, bit: ((c >> 1) & 7) as u8 }
            } else {
                Mutation::Trunc { len: (c >> 4) as u32 }
            };
            crate::observer::do_obs_corrupt(w, (a & 1) as usize, b, &m)
        }
        "burst" => {
            // C05: p sends b messages and then one more that overtakes them at every receiver
            let p = a as usize;
            if !w.live(p, 0) || !w.parties[p].mems[0].cached.is_empty() {
                return Ok(false);
            }
            w.stats.fault("N-GAP");
            *w.stats.probes.entry(format!("generation-gap:{b}")).or_default() += 1;
            for _ in 0..b {
                w.send_app_inner(p, 0, 3, 0, false)?;
            }
            w.send_app_inner(p, 0, 5, 1, true)?;
            if c > 0 {
                // one receiver takes the overtaking message, stores the group with all the skipped keys in it, and
                // comes back from storage before the late messages arrive
                let epoch = w.epoch_of(p, 0);
                let receivers: Vec<usize> = w.live_members(0).into_iter().filter(|q| *q != p && w.epoch_of(*q, 0) == epoch).collect();
                if let Some(q) = receivers.get((c as usize - 1) % receivers.len().max(1)).copied() {
                    if let Some(id) = w.parties[q].mems[0].inbox.first().copied() {
                        if w.msgs[&id].sender == p && w.msgs[&id].kind == MsgKind::App {
                            w.deliver_one(q, 0, id, true)?;
                            w.do_write(q, 0)?;
                            w.do_crash(q)?;
                            w.do_reload(q, 0)?;
                            w.stats.probe("reload-with-skipped-keys-stored");
                        }
                    }
                }
            }
            Ok(true)
        }
        _ => Ok(false),
    }
}

/// C11: p applies the b-th set of detached commit secrets it holds. Secrets of the commit the DS picked for
/// p's current epoch are the genuine successor (must apply and give the canonical state); secrets made in an
/// older epoch are stale and must be refused with the member unchanged.
pub fn do_apply_detached(w: &mut World, p: usize, g: usize, k: u64) -> VResult<bool> {
    if !w.live(p, g) || w.parties[p].mems[g].detached.is_empty() {
        return Ok(false);
    }
    let prop = w.cfg.property.clone();
    let n = w.parties[p].mems[g].detached.len();
    let (cid, secrets) = w.parties[p].mems[g].detached[k as usize % n].clone();
    let epoch = w.epoch_of(p, g).unwrap();
    let msg = w.msgs[&cid].clone();
    let winner_here = w.groups[g].log.get(epoch as usize) == Some(&cid);
    let stale = msg.epoch < epoch;
    if !winner_here && !stale {
        // made for the current epoch but not (yet) chosen by the DS: the library cannot know, the application must not apply it
        return Ok(false);
    }
    let pre = capture(w, p, g, "apply_detached_commit");
    let bc = crate::prng::mix(&[w.seed, w.step_no as u64, 0xbc]) % 3 == 0;
    if bc {
        w.stats.probe("detached-apply-through-backwards-compatible-entry-point");
    }
    let mut group = w.parties[p].mems[g].group.take().unwrap();
    let r = guarded(&prop, "apply_detached_commit", || {
        let s = mls_rs::group::CommitSecrets::from_bytes(&secrets)?;
        // a third of the time through the entry point that also understands commit secrets of older versions
        if bc {
            group.apply_detached_commit_backwards_compatible(s)
        } else {
            group.apply_detached_commit(s)
        }
    });
    w.parties[p].mems[g].group = Some(group);
    let r = r?;
    w.stats.op("apply_detached");
    match (r, stale) {
        (Ok(_), true) => Err(Violation::new(
            &prop,
            "stale-detached-commit-refused",
            "stale-detached-commit-applied".into(),
            format!(
                "P{p} at epoch {epoch} applied detached commit secrets of commit {cid}, which was made in epoch {}: the member is now on a fork",
                msg.epoch
            ),
        )),
        (Err(e), true) => {
            let cls = err_class(&e);
            w.ev(format!("apply-detached P{p} stale id={cid} err {cls}"));
            w.stats.probe("stale-detached-refused");
            check_unchanged(w, p, g, pre, "apply-detached-stale", &cls, String::new())?;
            w.parties[p].mems[g].detached.retain(|(c, _)| *c != cid);
            Ok(true)
        }
        (Ok(desc), false) => {
            w.ev(format!("apply-detached P{p} id={cid} ok"));
            w.stats.probe("detached-applied");
            w.parties[p].mems[g].detached.retain(|(c, _)| *c != cid);
            let m = w.mem(p, g);
            m.pending = None;
            m.cached.clear();
            after_commit_processed(w, p, g, cid, Pre::default(), &desc)?;
            if matches!(desc.effect, mls_rs::group::CommitEffect::ReInit(_)) {
                w.groups[g].reinit_at = Some(epoch);
                return Ok(true);
            }
            w.mem(p, g).ret_pending.insert(epoch);
            let ne = w.epoch_of(p, g).unwrap();
            if ne != epoch + 1 {
                return Err(Violation::new(
                    &prop,
                    "epoch-step",
                    "epoch-not-plus-one".into(),
                    format!("P{p} went from epoch {epoch} to {ne} by applying a detached commit"),
                ));
            }
            w.reached_epoch(p, g, "detached-commit")?;
            Ok(true)
        }
        (Err(e), false) => Err(Violation::new(
            &prop,
            "liveness",
            format!("detached-commit-refused:{}", err_class(&e)),
            format!("P{p} could not apply the detached secrets of its own winning commit {cid}: {e:?}"),
        )),
    }
}

/// B-MOD (DESIGN §4): member p, an honest library with the H4 commit modifiers switched on, signs a
/// structurally invalid commit. Every receiver must reject it (C03), must not panic and must be
/// unchanged afterwards (C04). The commit is built on a clone of p and never reaches the DS log.
pub fn do_byz_commit(w: &mut World, p: usize, g: usize, code: u8, param: u8) -> VResult<bool> {
    if !w.live(p, g) || w.parties[p].mems[g].pending.is_some() {
        return Ok(false);
    }
    let prop = w.cfg.property.clone();
    let epoch = w.epoch_of(p, g).unwrap();
    let receivers: Vec<usize> = w
        .live_members(g)
        .into_iter()
        .filter(|q| *q != p && w.epoch_of(*q, g) == Some(epoch))
        .collect();
    if receivers.is_empty() {
        return Ok(false);
    }
    w.set_commit_options(
        p,
        &CommitSpec {
            path_required: true,
            ratchet_tree_ext: true,
            single_welcome: true,
            ..Default::default()
        },
    );
    let now = w.now();
    let mut clone = w.parties[p].mems[g].group.as_ref().unwrap().clone();
    mls_rs::group::verif_hooks::modifiers::set(code, param);
    let res = guarded(&prop, "commit(byzantine)", || {
        clone.commit_builder().commit_time(now).build()
    });
    let fired = mls_rs::group::verif_hooks::modifiers::clear();
    let touched = mls_rs::group::verif_hooks::modifiers::touched_node();
    let res = res?;
    w.stats.op("byz_commit");
    let out = match res {
        Err(e) => {
            w.ev(format!("byz P{p} code={code} build err {}", err_class(&e)));
            w.stats.result(&format!("byz:build-err:{}", err_class(&e)));
            return Ok(true);
        }
        Ok(o) => o,
    };
    if fired == 0 {
        w.ev(format!("byz P{p} code={code} modifier did not apply"));
        return Ok(true);
    }
    w.stats.fault("B-MOD");
    let bytes = out.commit_message.to_bytes().unwrap_or_default();
    // 6/7/8 (ciphertext list length, damaged ciphertext) and 31 (path secret sealed to a wrong copath key)
    // are only detectable by the receivers that decrypt at that node
    let must_reject = !matches!(code, 6 | 7 | 8 | 31 | 32);
    // 32 (a key on the committer's path node `touched` that does not come from its path secrets): every receiver
    // below that node derives the node's secret and must notice; receivers outside its subtree cannot
    let members_now = w.groups[g].members.get(&epoch).cloned().unwrap_or_default();
    let below_touched = |leaf: u32| -> bool {
        // node x at level k covers leaves [(x + 1 - 2^k) / 2, .. + 2^k)
        let k = (!touched).trailing_zeros();
        let span = 1u32 << k;
        let lo = (touched + 1 - span) / 2;
        lo <= leaf && leaf < lo + span
    };
    for q in receivers {
        let must_reject = must_reject || (code == 32 && members_now.get(&q).map(|l| below_touched(*l)).unwrap_or(false));
        let pre = before_op(w, q, g, "process_incoming_message(byzantine commit)")?;
        let keep = w.parties[q].mems[g].group.clone();
        let r = w.process(q, g, &bytes, "process_byzantine_commit")?;
        match r {
            Ok(rm) => {
                // a member that the commit removes cannot check the update path (it gets no secrets)
                let removed = matches!(
                    &rm,
                    mls_rs::group::ReceivedMessage::Commit(d)
                        if matches!(d.effect, mls_rs::group::CommitEffect::Removed { .. })
                );
                if must_reject && !removed {
                    return Err(Violation::new(
                        &prop,
                        "invalid-commit-rejected",
                        format!("accepted-structurally-invalid-commit:{code}"),
                        format!(
                            "P{q} accepted a commit from P{p} whose update path / leaf / tree was structurally invalid (modifier {code}, param {param})"
                        ),
                    ));
                }
                // a receiver that does not decrypt the damaged ciphertext cannot tell: put it back
                w.mem(q, g).group = keep;
                w.stats.probe(&format!("byz:{code}:undetectable-for-receiver"));
                w.ev(format!("byz P{p} code={code} -> P{q} accepted (not detectable there)"));
            }
            Err(e) => {
                let cls = err_class(&e);
                w.ev(format!("byz P{p} code={code} param={param} -> P{q} err {cls}"));
                w.stats.probe(&format!("byz:{code}:{cls}"));
                after_rejected(w, q, g, u64::MAX, &format!("byz-commit-{code}"), &cls, pre)?;
            }
        }
    }
    Ok(true)
}

pub fn commit_extras(w: &mut World, _p: usize, g: usize, spec: &CommitSpec) -> VResult<CommitExtras> {
    let mut x = CommitExtras::default();
    x.reinit_gid = format!("reinit-of-{g}-{:08x}", w.seed as u32).into_bytes();
    let latest = w.groups[g].log.len() as u64;
    for back in &spec.res_psks {
        x.res_psk_epochs.push(latest.saturating_sub(*back as u64));
    }
    Ok(x)
}

pub fn proposal_extras(w: &mut World, _p: usize, g: usize, spec: &PropSpec) -> VResult<PropExtras> {
    let mut x = PropExtras::default();
    if let PropSpec::Template { t, q } = spec {
        match t {
            14 => {
                // the resumption PSK of an epoch that has not happened yet
                let epoch = w.groups[g].log.len() as u64;
                let off = [1u64, 7, u64::MAX - epoch][*q % 3];
                let e = epoch.saturating_add(off);
                x.raw = Some(Arc::new(move |grp: &mut SimGroup| grp.propose_resumption_psk(e, vec![])));
            }
            12 => {
                // add a device that does not support the extension type the group context carries
                let epoch = w.groups[g].log.len() as u64;
                let has = w.groups[g].records.get(&epoch).map(|r| crate::c13::ctx_has_extension(&r.ctx, 0xF001)).unwrap_or(false);
                if has {
                    if let Some(kp) = w.legacy_key_package(_p)? {
                        w.stats.probe("template-legacy-device-by-reference");
                        x.raw = Some(Arc::new(move |grp: &mut SimGroup| grp.propose_add(MlsMessage::from_bytes(&kp)?, vec![])));
                    }
                }
            }
            10 | 11 => {
                // add somebody with a key package that has expired / is not valid yet
                let st = w.mem(*q, g).status.clone();
                let banned = w.cfg.knob("banned").map(|_| w.parties.len() - 1);
                if matches!(st, Status::Never) && Some(*q) != banned {
                    let year = 365 * 24 * 3600u64;
                    let at = if *t == 10 { w.clock.saturating_sub(year + 1) } else { w.clock + 3600 };
                    if let Some(kp) = w.gen_key_package_at(*q, mls_rs::time::MlsTime::from(at))? {
                        x.raw = Some(Arc::new(move |grp: &mut SimGroup| grp.propose_add(MlsMessage::from_bytes(&kp)?, vec![])));
                    }
                }
            }
            8 => {
                // add somebody whose credential the application's identity provider rejects
                if let Some(kp) = w.gen_key_package(*q)? {
                    x.raw = Some(Arc::new(move |grp: &mut SimGroup| grp.propose_add(MlsMessage::from_bytes(&kp)?, vec![])));
                }
            }
            _ => {
                // a PSK nobody holds
                x.raw = Some(Arc::new(|grp: &mut SimGroup| {
                    grp.propose_external_psk(mls_rs::psk::ExternalPskId::new(vec![b'k', 99]), vec![])
                }));
            }
        }
    }
    x.reinit_gid = format!("reinit-of-{g}-{:08x}", w.seed as u32).into_bytes();
    if let PropSpec::ResPsk { back } = spec {
        x.res_epoch = (w.groups[g].log.len() as u64).saturating_sub(*back as u64);
    }
    Ok(x)
}

pub fn before_op(w: &mut World, p: usize, g: usize, what: &str) -> VResult<Pre> {
    if state_oracle_on(w) || w.cfg.oracle("pending-model") || w.cfg.oracle("accepted-state") {
        return Ok(capture(w, p, g, what));
    }
    Ok(Pre {
        what: what.to_string(),
        ..Default::default()
    })
}

pub fn before_join(_w: &mut World, _p: usize, _g: usize) -> VResult<Pre> {
    Ok(Pre::default())
}

pub fn after_failed_op(
    w: &mut World,
    p: usize,
    g: usize,
    what: &str,
    cls: &str,
    pre: Pre,
    _spec: Option<&CommitSpec>,
) -> VResult<()> {
    if state_oracle_on(w) {
        check_unchanged(w, p, g, pre, what, cls, "a commit / proposal / send the member failed to build".into())?;
    }
    Ok(())
}

pub fn after_commit_built(
    w: &mut World,
    p: usize,
    g: usize,
    id: u64,
    pre: Pre,
    _out: &CommitOutput,
) -> VResult<()> {
    crate::c10::on_commit_built(w, p, g, id, &_out.unused_proposals)?;
    // RFC 9420 §12.4: the path is required when the commit carries a Remove, Update, GroupContextExtensions (or
    // ExternalInit) proposal or no proposal at all - a removed member must not be able to derive the next epoch
    if w.cfg.oracle("path-required") {
        let msg = w.msgs[&id].clone();
        if let Some(spec) = &msg.spec {
            let removes_by_value = spec.removes.iter().any(|q| {
                *q != p && w.groups[g].members.get(&msg.epoch).map(|m| m.contains_key(q)).unwrap_or(false)
            });
            let byref_needs_path = msg.refs.iter().any(|r| {
                matches!(
                    w.msgs[r].pspec,
                    Some(PropSpec::Update { .. }) | Some(PropSpec::Remove { .. }) | Some(PropSpec::SelfRemove) | Some(PropSpec::Gce { .. })
                )
            });
            let empty = spec.adds.is_empty()
                && spec.removes.is_empty()
                && spec.ext_psks.is_empty()
                && spec.res_psks.is_empty()
                && spec.gce.is_none()
                && spec.custom.is_none()
                && spec.reinit.is_none()
                && spec.templates.is_empty()
                && msg.refs.is_empty();
            let must = removes_by_value || spec.gce.is_some() || empty;
            w.stats.check("path-present-when-required");
            let has = w.ext.commit_has_path.get(&id).copied().unwrap_or(true);
            if must && !has {
                return Err(Violation::new(
                    &w.cfg.property,
                    "path-required",
                    format!(
                        "commit-without-required-path:{}",
                        if removes_by_value { "remove" } else if spec.gce.is_some() { "gce" } else { "empty" }
                    ),
                    format!("P{p} built commit {id} without an update path although it {} (by-reference proposals that need a path: {byref_needs_path})",
                        if removes_by_value { "removes a member" } else if spec.gce.is_some() { "changes the group context extensions" } else { "carries no proposal" }),
                ));
            }
            if removes_by_value && spec.custom.is_some() {
                w.stats.probe("commit-with-remove-and-custom-proposal");
            }
        }
    }
    if w.cfg.oracle("record-crypto") {
        let events = crate::crypto::rec_take_events();
        unique_seals(w, &events, "commit")?;
        crate::c13::after_commit_built(w, p, g, id, &events)?;
        if w.cfg.oracle("recipients") {
            crate::treeor::c02_after_commit_built(w, p, g, id, events)?;
        }
    }
    if !w.cfg.oracle("pending-model") {
        return Ok(());
    }
    let prop = w.cfg.property.clone();
    let msg = w.msgs[&id].clone();
    let detached = msg.spec.as_ref().map(|s| s.detached).unwrap_or(false);
    let group = w.parties[p].mems[g].group.as_ref().unwrap();
    w.stats.check("pending-commit-leaves-group-unchanged");
    if group.has_pending_commit() == detached {
        return Err(Violation::new(
            &prop,
            "pending-commit-flag",
            format!("has-pending-{}-after-build-detached-{detached}", group.has_pending_commit()),
            format!("P{p}: has_pending_commit() = {} right after building a commit (detached = {detached})", group.has_pending_commit()),
        ));
    }
    if let Some(before) = &pre.state {
        let after = h1(group).map_err(|e| {
            Violation::new(&prop, "pending-model", "h1".into(), format!("{e:?}"))
        })?;
        let mut d = diff_states(before, &after, None);
        d.retain(|c| *c != "pending_commit" && !(msg.private && *c == "epoch_secrets"));
        if !d.is_empty() {
            return Err(Violation::new(
                &prop,
                "pending-commit-leaves-group-unchanged",
                format!("commit-build-changed:{}", d.join("+")),
                format!(
                    "P{p}: building commit {id} (detached={detached}) changed more than the pending-commit slot: {:?}",
                    d
                ),
            ));
        }
    }
    if !detached {
        // a second commit must be refused while one is pending (on a clone: the member itself is not touched)
        let mut c = group.clone();
        let now = w.now();
        let r = guarded(&prop, "commit(second)", || c.commit_builder().commit_time(now).build())?;
        match r {
            Err(MlsError::ExistingPendingCommit) => {}
            other => {
                return Err(Violation::new(
                    &prop,
                    "single-pending-commit",
                    "second-commit-not-refused".into(),
                    format!(
                        "P{p}: a second commit while one is pending returned {:?} instead of ExistingPendingCommit",
                        other.map(|_| "Ok").map_err(|e| err_class(&e))
                    ),
                ));
            }
        }
    }
    Ok(())
}

pub fn after_ext_commit_built(_w: &mut World, _p: usize, _g: usize, _id: u64) -> VResult<()> {
    Ok(())
}

pub fn on_wire(w: &mut World, bytes: &[u8], kind: &str) -> VResult<()> {
    crate::codec::on_wire(w, bytes, kind)
}

/// C05 oracle 1: no (key, nonce) pair is ever used twice by any member of the world
pub fn unique_seals(w: &mut World, events: &[crate::crypto::Ev], what: &str) -> VResult<()> {
    if !w.cfg.oracle("nonce-unique") {
        return Ok(());
    }
    for e in events {
        if let crate::crypto::Ev::AeadSeal { key, nonce, party, with_aad, .. } = e {
            w.stats.check("key-nonce-pair-unique");
            let here = format!("{what} of P{party} at step {}", w.step_no);
            if let Some(first) = w.ext.seal_pairs.insert((key.clone(), nonce.clone()), here) {
                if !*with_aad {
                    // not an encryption of message content: the GroupInfo of a Welcome is sealed under the welcome key
                    // and nonce, which RFC 9420 derives from the joiner secret alone. A member that withdraws a commit
                    // and builds a byte-identical one (same proposals, no path, deterministic signature scheme)
                    // arrives at the same joiner secret and so at the same welcome key and nonce.
                    w.stats.probe("welcome-key-derived-again-for-an-identical-rebuilt-commit");
                    continue;
                }
                return Err(Violation::new(
                    &w.cfg.property,
                    "key-nonce-unique",
                    format!("key-nonce-reused:{what}"),
                    format!(
                        "P{party}: an AEAD encryption while building a {what} used a (key, nonce) pair that was used before in this world (first use: {first}; key {}.. nonce {})",
                        hex::encode(&key[..key.len().min(6)]),
                        hex::encode(nonce)
                    ),
                ));
            }
        }
    }
    Ok(())
}

pub fn after_sent(w: &mut World, p: usize, g: usize, id: u64) -> VResult<()> {
    if w.cfg.oracle("record-crypto") {
        let events = crate::crypto::rec_take_events();
        unique_seals(w, &events, "message")?;
        crate::c13::after_sent(w, p, g, id, &events)?;
    }
    feed_removed(w, g, id)
}

pub fn after_join(w: &mut World, p: usize, g: usize, how: &str) -> VResult<()> {
    w.ext.twins.remove(&(p, g));
    w.ext.at_write.remove(&(p, g));
    if w.cfg.oracle("joiner") {
        // the key package is still in the store until the new group is persisted
        if let Some(kp) = w.parties[p].mems[g].join_kp.clone() {
            w.stats.check("key-package-kept-until-first-write");
            if how == "welcome" && w.parties[p].kpstore.raw_get(&kp).is_none() {
                return Err(Violation::new(
                    &w.cfg.property,
                    "key-package-lifecycle",
                    "key-package-gone-before-write".into(),
                    format!("P{p}: the key package it joined g{g} with is no longer in its store although the new group has not been persisted yet"),
                ));
            }
        }
        // the joiner can exchange messages at once
        let _ = w.send_app_inner(p, g, 7, 1, false)?;
    }
    Ok(())
}

/// C07 negative joins: a Welcome offered to somebody it is not addressed to, with a tree of another epoch, or a
/// stale GroupInfo with the current tree must never produce a group
pub fn do_bad_join(w: &mut World, variant: u64, q: usize, g: usize) -> VResult<bool> {
    if g >= w.groups.len() || q >= w.parties.len() || w.parties[q].crashed {
        return Ok(false);
    }
    let prop = w.cfg.property.clone();
    let now = w.now();
    let client = w.parties[q].client.clone();
    match variant {
        0 => {
            // a Welcome that is not addressed to q
            let status = w.mem(q, g).status.clone();
            if !matches!(status, Status::Never | Status::Removed) || w.mem(q, g).welcome.is_some() {
                return Ok(false);
            }
            let Some(cid) = w.groups[g].log.iter().rev().find(|c| {
                let m = &w.msgs[*c];
                !m.welcomes.is_empty() && m.welcomes.iter().all(|(x, _)| *x != q)
            }).copied() else {
                return Ok(false);
            };
            let msg = w.msgs[&cid].clone();
            // q must own at least one key package, otherwise the refusal is trivial
            if w.gen_key_package(q)?.is_none() {
                return Ok(false);
            }
            let wb = msg.welcomes[0].1.clone();
            let tree = msg.oob_tree.clone();
            let r = guarded(&prop, "join_group(not addressed)", || {
                let wm = MlsMessage::from_bytes(&wb)?;
                let t = match &tree {
                    Some(t) => Some(mls_rs::group::ExportedTree::from_bytes(t)?),
                    None => None,
                };
                client.join_group(t, &wm, Some(now))
            })?;
            w.stats.fault("J-NOT-ADDRESSED");
            if r.is_ok() {
                return Err(Violation::new(
                    &prop,
                    "mismatched-join-refused",
                    "joined-with-foreign-welcome".into(),
                    format!("P{q} obtained a group from the Welcome of commit {cid} although none of its entries is addressed to one of P{q}'s key packages"),
                ));
            }
            w.ev(format!("bad-join P{q} g{g} variant 0 refused"));
            Ok(true)
        }
        1 => {
            // the genuine Welcome with the ratchet tree of another epoch
            let Some((cid, wb, Some(_))) = w.mem(q, g).welcome.clone() else {
                return Ok(false);
            };
            // when the Welcome carries the ratchet tree in its (signed) GroupInfo extension, a tree supplied out of
            // band is not used at all: only Welcomes without the extension depend on the supplied tree
            if w.msgs[&cid].spec.as_ref().map(|s| s.ratchet_tree_ext).unwrap_or(true) {
                return Ok(false);
            }
            let ep = w.msgs[&cid].epoch + 1;
            let Some((_, other)) = w.groups[g].records.iter().find(|(e, r)| **e != ep && w.groups[g].records.get(&ep).map(|x| x.tree != r.tree).unwrap_or(true)) else {
                return Ok(false);
            };
            let other_tree = other.tree.clone();
            let r = guarded(&prop, "join_group(wrong tree)", || {
                let wm = MlsMessage::from_bytes(&wb)?;
                client.join_group(Some(mls_rs::group::ExportedTree::from_bytes(&other_tree)?), &wm, Some(now))
            })?;
            w.stats.fault("J-WRONG-TREE");
            if r.is_ok() {
                return Err(Violation::new(
                    &prop,
                    "mismatched-join-refused",
                    "joined-with-tree-of-other-epoch".into(),
                    format!("P{q} obtained a group from the Welcome of commit {cid} together with the ratchet tree of another epoch"),
                ));
            }
            w.ev(format!("bad-join P{q} g{g} variant 1 refused"));
            Ok(true)
        }
        3 | 4 => {
            // the genuine Welcome (3) or the out-of-band tree that goes with it (4) with one bit flipped
            let Some((cid, wb, oob)) = w.mem(q, g).welcome.clone() else {
                return Ok(false);
            };
            let mut r = crate::prng::Prng::new(crate::prng::mix(&[w.seed, w.step_no as u64, 0xf11b]));
            let tree_ext = w.msgs[&cid].spec.as_ref().map(|s| s.ratchet_tree_ext).unwrap_or(true);
            let (wb2, tree2, must_reject, what) = if variant == 4 {
                let Some(t) = oob.clone() else { return Ok(false) };
                if tree_ext || t.is_empty() {
                    return Ok(false);
                }
                let body = crate::refmls::Rd::new(&t).vec().ok().map(|b| b.to_vec());
                match (r.chance(1, 3), body) {
                    (true, Some(mut body)) => {
                        // blank nodes appended on the way (and the length prefix adjusted): inside the width of the
                        // tree this changes no hash, only the rule that a tree does not end in blank nodes notices it
                        let k = *r.pick(&[1usize, 2, 2, 4, 6]);
                        body.extend(std::iter::repeat(0u8).take(k));
                        let mut t2 = vec![];
                        crate::refmls::put_vec(&mut t2, &body);
                        w.stats.probe("tree-with-appended-blank-nodes-offered");
                        (wb.clone(), Some(t2), true, format!("{k} blank node(s) appended to the tree"))
                    }
                    _ => {
                        let mut t2 = t.clone();
                        let i = r.usize_below(t2.len());
                        t2[i] ^= 1 << r.below(8);
                        (wb.clone(), Some(t2), true, format!("tree byte {i}"))
                    }
                }
            } else {
                // Welcome layout: version, wire format, cipher suite, secrets<V> { (key package ref<V>, kem output<V>,
                // ciphertext<V>)* }, encrypted_group_info<V>
                let mut rd = crate::refmls::Rd::new(&wb);
                let layout = (|| -> Option<(usize, usize, Vec<(usize, usize, Vec<u8>)>, usize, usize)> {
                    rd.u16().ok()?;
                    rd.u16().ok()?;
                    rd.u16().ok()?;
                    let header_end = rd.pos;
                    let secrets = rd.vec().ok()?;
                    let secrets_end = rd.pos;
                    let secrets_start = secrets_end - secrets.len();
                    let mut sr = crate::refmls::Rd::new(secrets);
                    let mut entries = vec![];
                    while sr.left() > 0 {
                        let a = sr.pos;
                        let kref = sr.vec().ok()?.to_vec();
                        sr.vec().ok()?;
                        sr.vec().ok()?;
                        entries.push((secrets_start + a, secrets_start + sr.pos, kref));
                    }
                    let egi = rd.vec().ok()?;
                    let egi_end = rd.pos;
                    Some((header_end, secrets_end, entries, egi_end - egi.len(), egi_end))
                })();
                let Some((header_end, _secrets_end, entries, egi_start, egi_end)) = layout else { return Ok(false) };
                let own: Vec<(usize, usize)> = entries
                    .iter()
                    .filter(|(_, _, kref)| w.kp_owner.get(kref).map(|(o, _)| *o == q).unwrap_or(false))
                    .map(|(a, b, _)| (*a, *b))
                    .collect();
                let region = r.below(4);
                let i = match region {
                    0 => r.usize_below(header_end),
                    1 if !own.is_empty() => own[0].0 + r.usize_below(own[0].1 - own[0].0),
                    2 if egi_end > egi_start => egi_start + r.usize_below(egi_end - egi_start),
                    _ => r.usize_below(wb.len()),
                };
                let mut wb2 = wb.clone();
                wb2[i] ^= 1 << r.below(8);
                let checkable = i < header_end || own.iter().any(|(a, b)| *a <= i && i < *b) || (egi_start <= i && i < egi_end);
                (wb2, oob.clone(), checkable, format!("welcome byte {i}"))
            };
            let r2 = guarded(&prop, "join_group(modified welcome / tree)", || {
                let wm = MlsMessage::from_bytes(&wb2)?;
                let t = match &tree2 {
                    Some(t) => Some(mls_rs::group::ExportedTree::from_bytes(t)?),
                    None => None,
                };
                client.join_group(t, &wm, Some(now))
            })?;
            w.stats.fault(if variant == 4 { "J-FLIP-TREE" } else { "J-FLIP-WELCOME" });
            if r2.is_ok() && must_reject {
                return Err(Violation::new(
                    &prop,
                    "modified-join-refused",
                    format!("joined-with-modified-{}", if variant == 4 { "tree" } else { "welcome" }),
                    format!("P{q} obtained a group from the Welcome of commit {cid} although {what} had been changed"),
                ));
            }
            if r2.is_ok() {
                w.stats.probe("welcome-flip-outside-own-entry-not-noticed");
            }
            w.ev(format!("bad-join P{q} g{g} variant {variant} ({what}) {}", if r2.is_ok() { "accepted (not checkable for this joiner)" } else { "refused" }));
            Ok(true)
        }
        5 => {
            // a current GroupInfo with one bit flipped, offered to the external-commit builder
            let status = w.mem(q, g).status.clone();
            if !matches!(status, Status::Never | Status::Removed) {
                return Ok(false);
            }
            let latest = w.groups[g].log.len() as u64;
            let Some(src) = w.live_members(g).into_iter().find(|m| w.epoch_of(*m, g) == Some(latest)) else {
                return Ok(false);
            };
            let (gi, tree) = {
                let grp = w.parties[src].mems[g].group.as_ref().unwrap();
                match grp.group_info_message_allowing_ext_commit(true) {
                    Ok(m) => (m.to_bytes().unwrap_or_default(), grp.export_tree().to_bytes().unwrap_or_default()),
                    Err(_) => return Ok(false),
                }
            };
            if gi.is_empty() {
                return Ok(false);
            }
            let mut r = crate::prng::Prng::new(crate::prng::mix(&[w.seed, w.step_no as u64, 0xf11c]));
            let mut gi2 = gi.clone();
            let i = r.usize_below(gi2.len());
            gi2[i] ^= 1 << r.below(8);
            let _ = tree;
            let r2 = guarded(&prop, "external_commit(modified group info)", || {
                client.external_commit_builder()?.commit_time(now).build(MlsMessage::from_bytes(&gi2)?)
            })?;
            w.stats.fault("J-FLIP-GROUP-INFO");
            if r2.is_ok() {
                return Err(Violation::new(
                    &prop,
                    "modified-join-refused",
                    "external-join-with-modified-group-info".into(),
                    format!("P{q} built an external commit from a GroupInfo of P{src} in which byte {i} had been changed"),
                ));
            }
            w.ev(format!("bad-join P{q} g{g} variant 5 (group info byte {i}) refused"));
            Ok(true)
        }
        _ => {
            // a stale GroupInfo (from a member that is behind) with the current tree
            let status = w.mem(q, g).status.clone();
            if !matches!(status, Status::Never | Status::Removed) {
                return Ok(false);
            }
            let latest = w.groups[g].log.len() as u64;
            let behind = w.live_members(g).into_iter().find(|m| w.epoch_of(*m, g).map(|e| e < latest).unwrap_or(false));
            let (Some(b), Some(rec)) = (behind, w.groups[g].records.get(&latest)) else {
                return Ok(false);
            };
            let be = w.epoch_of(b, g).unwrap();
            if w.groups[g].records.get(&be).map(|r| r.tree == rec.tree).unwrap_or(true) {
                return Ok(false);
            }
            let tree = rec.tree.clone();
            let gi = {
                let grp = w.parties[b].mems[g].group.as_ref().unwrap();
                match grp.group_info_message_allowing_ext_commit(false) {
                    Ok(m) => m.to_bytes().unwrap_or_default(),
                    Err(_) => return Ok(false),
                }
            };
            let r = guarded(&prop, "external_commit(stale group info)", || {
                client
                    .external_commit_builder()?
                    .commit_time(now)
                    .with_tree_data(mls_rs::group::ExportedTree::from_bytes(&tree)?.into_owned())
                    .build(MlsMessage::from_bytes(&gi)?)
            })?;
            w.stats.fault("J-STALE-GROUP-INFO");
            if r.is_ok() {
                return Err(Violation::new(
                    &prop,
                    "mismatched-join-refused",
                    "external-join-with-stale-group-info".into(),
                    format!("P{q} obtained a group from P{b}'s GroupInfo of epoch {be} combined with the ratchet tree of epoch {latest}"),
                ));
            }
            w.ev(format!("bad-join P{q} g{g} variant 2 refused"));
            Ok(true)
        }
    }
}

pub fn retained(w: &World, p: usize, g: usize, e: u64) -> bool {
    let Some(m) = w.mem_ref(p, g) else { return false };
    (m.ret_disk.contains(&e) || m.ret_pending.contains(&e)) && !m.ret_nosecret.contains(&e)
}

/// the PSKs a commit injects, as far as the model can tell: (external ids, resumption epochs, certain?)
pub fn commit_psks(w: &World, g: usize, msg: &Msg) -> (Vec<u8>, Vec<u64>, bool) {
    let mut ext = msg.ext_psks.clone();
    let mut res = msg.res_psks.clone();
    let mut certain = true;
    let s = msg.sender;
    for r in &msg.refs {
        let pm = &w.msgs[r];
        for id in &pm.ext_psks {
            // a by-reference PSK proposal the committer cannot resolve is dropped from the commit
            if w.parties[s].pskstore.peek(&[b'k', *id]).is_some() {
                if !ext.contains(id) {
                    ext.push(*id);
                } else {
                    certain = false;
                }
            }
        }
        for e in &pm.res_psks {
            if *e == msg.epoch || retained(w, s, g, *e) {
                if !res.contains(e) {
                    res.push(*e);
                } else {
                    certain = false;
                }
            } else {
                certain = false;
            }
        }
    }
    (ext, res, certain)
}

fn holds_psks(w: &World, p: usize, msg: &Msg) -> Option<bool> {
    // Some(true): holds all external PSKs with the committer's values; Some(false): lacks / differs
    let s = msg.sender;
    let (ext, _, _) = commit_psks(w, msg.g, msg);
    for id in &ext {
        let key = vec![b'k', *id];
        let a = w.parties[s].pskstore.peek(&key);
        let b = w.parties[p].pskstore.peek(&key);
        if a.is_none() || a != b {
            return Some(false);
        }
    }
    Some(true)
}

/// can member p resolve every resumption PSK of the commit?
fn holds_resumption(w: &World, p: usize, g: usize, msg: &Msg) -> bool {
    let (_, res, _) = commit_psks(w, g, msg);
    let Some(cur) = w.epoch_of(p, g) else { return false };
    let join = w.mem_ref(p, g).map(|m| m.join_epoch).unwrap_or(0);
    res.iter().all(|e| {
        let member_then = w.groups[g].members.get(e).map(|m| m.contains_key(&p)).unwrap_or(false);
        member_then && *e >= join && (*e == cur || retained(w, p, g, *e))
    })
}

pub fn expect_commit(w: &World, p: usize, g: usize, cid: u64) -> Expect {
    let msg = &w.msgs[&cid];
    let Some(epoch) = w.epoch_of(p, g) else {
        return Expect::May;
    };
    if msg.epoch != epoch {
        return Expect::MustErr;
    }
    let member = w.groups[g]
        .members
        .get(&epoch)
        .map(|m| m.contains_key(&p))
        .unwrap_or(false);
    if !member {
        return Expect::MustErr;
    }
    let mem = &w.parties[p].mems[g];
    if msg.sender == p && !msg.external {
        return if mem.pending == Some(cid) {
            Expect::MustOk
        } else {
            Expect::May
        };
    }
    // a member the commit removes does not run the key schedule: it needs no PSK (and the model does not
    // try to predict every way a by-reference removal can be filtered)
    let removes_p = msg.spec.as_ref().map(|s| s.removes.contains(&p)).unwrap_or(false)
        || msg.refs.iter().any(|r| match &w.msgs[r].pspec {
            Some(PropSpec::Remove { q }) => *q == p,
            Some(PropSpec::SelfRemove) => w.msgs[r].sender == p,
            _ => false,
        });
    if removes_p {
        return Expect::May;
    }
    if holds_psks(w, p, msg) == Some(false) {
        return Expect::MustErr;
    }
    if msg.private && w.ext.rolled_back.contains(&(msg.sender, g, msg.epoch)) {
        return Expect::May;
    }
    let (_, res, certain) = commit_psks(w, g, msg);
    if !certain {
        return Expect::May;
    }
    if !res.is_empty() && !holds_resumption(w, p, g, msg) {
        return Expect::MustErr;
    }
    if msg.refs.iter().any(|r| !mem.cached.contains(r)) {
        return Expect::May;
    }
    if msg.spec.as_ref().map(|s| s.modifier != 0).unwrap_or(false) {
        return Expect::MustErr;
    }
    Expect::MustOk
}

pub fn expect_join(w: &World, p: usize, g: usize, cid: u64) -> Expect {
    let msg = &w.msgs[&cid];
    if holds_psks(w, p, msg) == Some(false) {
        return Expect::MustErr;
    }
    let (_, res, certain) = commit_psks(w, g, msg);
    if !certain {
        return Expect::May;
    }
    if !res.is_empty() {
        // a new member cannot hold a resumption secret of this group
        return Expect::MustErr;
    }
    if w.mem_ref(p, g).map(|m| m.rejoined_same_storage).unwrap_or(false) {
        return Expect::May;
    }
    Expect::MustOk
}

pub fn expect_msg(w: &World, p: usize, g: usize, id: u64) -> Expect {
    let msg = &w.msgs[&id];
    let Some(epoch) = w.epoch_of(p, g) else {
        return Expect::May;
    };
    let member_then = w.groups[g]
        .members
        .get(&msg.epoch)
        .map(|m| m.contains_key(&p))
        .unwrap_or(false);
    let mem = &w.parties[p].mems[g];
    match msg.kind {
        MsgKind::App => {
            if mem.rejoined_same_storage && msg.epoch < mem.join_epoch && member_then {
                // the storage still holds epochs of the earlier membership: either outcome is legitimate
                return Expect::May;
            }
            if !member_then || msg.epoch > epoch || msg.epoch < mem.join_epoch {
                return Expect::MustErr;
            }
            if msg.epoch < epoch {
                // whatever the retention model says: a message this member has accepted (and has not lost again in a
                // crash) is never accepted a second time
                if mem.accepted.contains(&id) {
                    return Expect::MustErr;
                }
                if !w.cfg.oracle("retention") {
                    return Expect::May;
                }
                if !retained(w, p, g, msg.epoch) {
                    return Expect::MustErr;
                }
                if w.ext.rolled_back.contains(&(msg.sender, g, msg.epoch)) {
                    return Expect::May;
                }
                let pos = mem.ratchet_pos.get(&(msg.sender, msg.epoch, true)).copied().unwrap_or(0);
                if msg.gen > pos + 1024 {
                    return Expect::MustErr;
                }
                // the sender's leaf must still carry the signature key it had then
                let then = w.groups[g].records.get(&msg.epoch);
                let now = w.groups[g].records.get(&epoch);
                let (Some(then), Some(now)) = (then, now) else { return Expect::May };
                let sidx = w.groups[g].members.get(&msg.epoch).and_then(|m| m.get(&msg.sender)).copied();
                let Some(sidx) = sidx else { return Expect::MustErr };
                let t = then.roster.iter().find(|(i, _, _)| *i == sidx);
                let n = now.roster.iter().find(|(i, _, _)| *i == sidx);
                return match (t, n) {
                    (Some((_, _, k0)), Some((_, _, k1))) if k0 == k1 => Expect::MustOk,
                    (Some((_, id0, _)), Some((_, id1, _))) if id0 == id1 => Expect::May,
                    _ => Expect::MustErr,
                };
            }
            if mem.accepted.contains(&id) {
                return Expect::MustErr;
            }
            if w.ext.rolled_back.contains(&(msg.sender, g, msg.epoch)) {
                return Expect::May;
            }
            // the documented out-of-order window: at most 1024 generations ahead of the receiver's ratchet
            let pos = mem.ratchet_pos.get(&(msg.sender, msg.epoch, true)).copied().unwrap_or(0);
            if msg.gen > pos + 1024 {
                return Expect::MustErr;
            }
            Expect::MustOk
        }
        MsgKind::Proposal => {
            if msg.epoch != epoch || !member_then {
                return Expect::MustErr;
            }
            if mem.cached.contains(&id) {
                return Expect::May;
            }
            if msg.private && w.ext.cache_cleared.contains(&(p, g, id)) {
                // taken once, then dropped by clear_proposal_cache: its key is spent, a second copy is a replay
                return Expect::MustErr;
            }
            if matches!(msg.pspec, Some(PropSpec::Template { .. })) {
                return Expect::May;
            }
            if msg.private && w.ext.rolled_back.contains(&(msg.sender, g, msg.epoch)) {
                return Expect::May;
            }
            Expect::MustOk
        }
        MsgKind::Commit => Expect::May,
    }
}

pub fn after_commit_processed(
    w: &mut World,
    p: usize,
    g: usize,
    cid: u64,
    _pre: Pre,
    _desc: &CommitMessageDescription,
) -> VResult<()> {
    crate::c10::on_commit_processed(w, p, g, cid, _desc)?;
    // what the library hands to the application about a commit can be serialised by it (C12)
    if w.cfg.oracle("codec") {
        use mls_rs::mls_rs_codec::{MlsEncode, MlsSize};
        if let Ok(bytes) = _desc.mls_encode_to_vec() {
            w.stats.check("commit-description-length-exact");
            if _desc.mls_encoded_len() != bytes.len() {
                return Err(Violation::new(
                    &w.cfg.property,
                    "round-trip",
                    "reported-length-differs:commit_description".into(),
                    format!("the description of commit {cid} reports an encoded length of {} bytes and writes {}", _desc.mls_encoded_len(), bytes.len()),
                ));
            }
            on_wire(w, &bytes, "commit_description")?;
        }
    }
    // (a member that the commit removes does not enter the new epoch: its object simply stays behind)
    let entered = !matches!(_desc.effect, mls_rs::group::CommitEffect::Removed { .. });
    if w.cfg.oracle("pending-model") && entered {
        if let Some(group) = w.parties[p].mems[g].group.as_ref() {
            w.stats.check("no-pending-after-epoch-change");
            if group.has_pending_commit() {
                return Err(Violation::new(
                    &w.cfg.property,
                    "pending-discarded-by-epoch-change",
                    "pending-survives-commit".into(),
                    format!("P{p}: still has a pending commit after commit {cid} moved it to a new epoch"),
                ));
            }
        }
    }
    Ok(())
}

pub fn after_reinit(_w: &mut World, _p: usize, _g: usize, _cid: u64) -> VResult<()> {
    Ok(())
}

pub fn after_rejected(
    w: &mut World,
    p: usize,
    g: usize,
    id: u64,
    kind: &str,
    cls: &str,
    pre: Pre,
) -> VResult<()> {
    if state_oracle_on(w) {
        let ctx = match w.msgs.get(&id) {
            Some(m) => format!(
                "message {id}: {:?} sent in epoch {} by P{}, private={}",
                m.kind, m.epoch, m.sender, m.private
            ),
            None => format!("message {id}"),
        };
        check_unchanged(w, p, g, pre, kind, cls, ctx)?;
    }
    Ok(())
}

pub fn stuck_reason(w: &World, p: usize, _g: usize, cid: u64) -> Option<String> {
    let msg = &w.msgs[&cid];
    if holds_psks(w, p, msg) == Some(false) {
        return Some("lacks PSK".into());
    }
    if !commit_psks(w, _g, msg).1.is_empty() {
        return Some("resumption PSK not retained".into());
    }
    if msg.refs.iter().any(|r| !w.msgs[r].ext_psks.is_empty() || !w.msgs[r].res_psks.is_empty()) {
        return Some("PSK proposed by reference not resolvable".into());
    }
    if msg.private && w.ext.rolled_back.contains(&(msg.sender, _g, msg.epoch)) {
        return Some("sender ratchet rolled back by crash".into());
    }
    let mem = &w.parties[p].mems[_g];
    if msg
        .refs
        .iter()
        .any(|r| w.msgs[r].sender == p && !mem.cached.contains(r))
    {
        // crashed after proposing and before writing: the proposal only exists on the wire
        return Some("own proposal lost in crash".into());
    }
    if msg.refs.iter().any(|r| w.msgs[r].private && !mem.cached.contains(r) && w.ext.cache_cleared.contains(&(p, _g, *r))) {
        // the application cleared the cache; the key of an encrypted proposal is spent, it cannot be taken again
        return Some("encrypted proposal dropped by clear_proposal_cache".into());
    }
    if msg.refs.iter().any(|r| {
        let pm = &w.msgs[r];
        pm.private && !mem.cached.contains(r) && w.ext.rolled_back.contains(&(pm.sender, _g, pm.epoch))
    }) {
        // an encrypted proposal of a sender whose ratchet a crash rolled back: its generation may have been
        // used again for another message, which this member may have taken first
        return Some("referenced proposal encrypted with a re-used generation".into());
    }
    None
}

pub fn after_proposal_received(
    _w: &mut World,
    _p: usize,
    _g: usize,
    _id: u64,
    _d: &mls_rs::group::ProposalMessageDescription,
) -> VResult<()> {
    Ok(())
}

pub fn after_accepted(_w: &mut World, _p: usize, _g: usize, _id: u64, _pre: Pre) -> VResult<()> {
    Ok(())
}

pub fn after_write(w: &mut World, p: usize, g: usize, _pre: Pre) -> VResult<()> {
    if w.cfg.oracle("joiner") {
        if let Some(kp) = w.parties[p].mems[g].join_kp.take() {
            w.stats.check("key-package-deleted-at-first-write");
            if w.parties[p].kpstore.raw_get(&kp).is_some() {
                return Err(Violation::new(
                    &w.cfg.property,
                    "key-package-lifecycle",
                    "key-package-kept-after-write".into(),
                    format!("P{p} persisted the group it joined, but the private keys of the key package it used are still in its key-package store"),
                ));
            }
        }
    }
    if w.cfg.oracle("retention") {
        let gid = w.groups[g].gid.clone();
        let ids: BTreeSet<u64> = w.parties[p].gstore.view(&gid).epochs.keys().copied().collect();
        let model = w.parties[p].mems[g].ret_disk.clone();
        w.stats.check("stored-epochs-equal-retention-model");
        if ids != model && !w.parties[p].mems[g].rejoined_same_storage {
            return Err(Violation::new(
                &w.cfg.property,
                "retention-window",
                "stored-epochs-differ-from-window".into(),
                format!(
                    "P{p}: after write_to_storage the storage holds prior epochs {:?}, the retention window (R = {}) says {:?}",
                    ids, w.cfg.retention, model
                ),
            ));
        }
    }
    c06_after_write(w, p, g)
}

pub fn after_reload(w: &mut World, p: usize, g: usize) -> VResult<()> {
    c06_after_reload(w, p, g)
}

pub fn after_clear_pending(w: &mut World, p: usize, g: usize, pre: Pre) -> VResult<()> {
    if !w.cfg.oracle("pending-model") {
        return Ok(());
    }
    let prop = w.cfg.property.clone();
    let group = w.parties[p].mems[g].group.as_ref().unwrap();
    if group.has_pending_commit() {
        return Err(Violation::new(
            &prop,
            "clear-pending",
            "pending-after-clear".into(),
            format!("P{p}: has_pending_commit() is still true after clear_pending_commit()"),
        ));
    }
    if let Some(before) = &pre.state {
        let after = h1(group).unwrap_or_default();
        let mut d = diff_states(before, &after, None);
        d.retain(|c| *c != "pending_commit");
        if !d.is_empty() {
            return Err(Violation::new(
                &prop,
                "clear-pending",
                format!("clear-changed:{}", d.join("+")),
                format!("P{p}: clear_pending_commit() changed {:?}", d),
            ));
        }
    }
    Ok(())
}

/// An outsider proposes its own addition (sender new_member_proposal): it builds the proposal from the GroupInfo of an
/// up-to-date member; members cache it like any proposal and a committer may commit it by reference.
pub fn do_nm_propose(w: &mut World, q: usize, g: usize) -> VResult<bool> {
    if g >= w.groups.len() || q >= w.parties.len() || w.parties[q].crashed || w.groups[g].reinit_at.is_some() {
        return Ok(false);
    }
    if w.cfg.encrypt_handshake {
        return Ok(false);
    }
    let banned = w.cfg.knob("banned").map(|_| w.parties.len() - 1);
    if Some(q) == banned {
        return Ok(false);
    }
    let st = w.mem(q, g).status.clone();
    if !matches!(st, Status::Never | Status::Removed) || w.mem(q, g).welcome.is_some() {
        return Ok(false);
    }
    if st == Status::Removed && w.multi() && !w.cfg.same_storage_rejoin {
        return Ok(false);
    }
    let latest = w.groups[g].log.len() as u64;
    if w.groups[g].members.get(&latest).map(|m| m.contains_key(&q)).unwrap_or(true) {
        return Ok(false);
    }
    let Some(src) = w.live_members(g).into_iter().find(|m| w.epoch_of(*m, g) == Some(latest)) else {
        return Ok(false);
    };
    let gi = {
        let grp = w.parties[src].mems[g].group.as_ref().unwrap();
        match grp.group_info_message(true) {
            Ok(m) => m.to_bytes().unwrap_or_default(),
            Err(_) => return Ok(false),
        }
    };
    w.prepare_rejoin(q, g)?;
    w.ext.twins.retain(|(p, _), _| *p != q);
    let prop = w.cfg.property.clone();
    let now = w.now();
    let client = w.parties[q].client.clone();
    let before: BTreeSet<Vec<u8>> = w.parties[q].kpstore.ids.lock().unwrap().clone();
    let r = guarded(&prop, "external_add_proposal", || {
        client.external_add_proposal(&MlsMessage::from_bytes(&gi)?, None, vec![], Default::default(), Default::default(), Some(now))
    })?;
    w.stats.op("new_member_proposal");
    let m = match r {
        Ok(m) => m,
        Err(e) => {
            return Err(Violation::new(
                &prop,
                "liveness",
                format!("new-member-proposal-failed:{}", err_class(&e)),
                format!("P{q} could not create a new-member Add proposal from P{src}'s current GroupInfo of g{g}: {e:?}"),
            ))
        }
    };
    let bytes = m.to_bytes().unwrap_or_default();
    on_wire(w, &bytes, "proposal")?;
    // the key package inside the proposal, so that a later Welcome can be attributed to q
    let after: BTreeSet<Vec<u8>> = w.parties[q].kpstore.ids.lock().unwrap().clone();
    let new_ids: Vec<Vec<u8>> = after.difference(&before).cloned().collect();
    if let (Some(l), [kref]) = (crate::c13::public_layout(&bytes), &new_ids[..]) {
        let mut rd = crate::refmls::Rd::new(&bytes[..l.content_end]);
        rd.pos = l.body_start;
        if let Some((1, a, b)) = crate::c13::skip_proposal(&mut rd) {
            let mut kp = vec![0u8, 1, 0, 5];
            kp.extend_from_slice(&bytes[a..b]);
            w.kp_owner.insert(kref.clone(), (q, kp));
        }
    }
    let id = w.new_msg_id();
    w.ev(format!("new-member proposal P{q} g{g} e{latest} id={id} h={}", short_hash(&bytes)));
    w.stats.probe("new-member-proposal");
    let msg = Msg {
        id,
        g,
        kind: MsgKind::Proposal,
        bytes,
        sender: q,
        epoch: latest,
        payload: vec![],
        aad: vec![],
        refs: vec![],
        welcomes: vec![],
        oob_tree: None,
        external: true,
        ext_psks: vec![],
        res_psks: vec![],
        private: false,
        spec: None,
        pspec: Some(PropSpec::Add { q }),
        time: w.clock,
        gen: 0,
    };
    w.msgs.insert(id, msg);
    w.groups[g].props.entry(latest).or_default().push(id);
    let members: Vec<usize> = w.groups[g].members.get(&latest).map(|m| m.keys().copied().collect()).unwrap_or_default();
    for p in members {
        w.mem(p, g).inbox.push(id);
    }
    Ok(true)
}

/// N-XGROUP: a public handshake message of one group is handed to a member of another group that is at the same
/// epoch number. Nothing binds it to that group: it must be rejected and leave the member unchanged.
pub fn do_xgroup(w: &mut World, p: usize, pick: u64) -> VResult<bool> {
    if w.groups.len() < 2 || p >= w.parties.len() {
        return Ok(false);
    }
    let mut cands: Vec<(usize, u64)> = vec![];
    for gb in 0..w.groups.len() {
        if !w.live(p, gb) {
            continue;
        }
        let e = w.epoch_of(p, gb).unwrap();
        for (id, m) in &w.msgs {
            if m.g != gb && !m.private && m.epoch == e && matches!(m.kind, MsgKind::Proposal | MsgKind::Commit) {
                cands.push((gb, *id));
            }
        }
    }
    if cands.is_empty() {
        return Ok(false);
    }
    // proposals that carry no group context in what they sign (new members, external senders) first
    cands.sort_by_key(|(_, id)| (!w.msgs[id].external, *id));
    let n_ext = cands.iter().filter(|(_, id)| w.msgs[id].external).count();
    let (gb, id) = if n_ext > 0 && pick % 2 == 0 { cands[(pick / 2) as usize % n_ext] } else { cands[(pick / 2) as usize % cands.len()] };
    let msg = w.msgs[&id].clone();
    let pre = before_op(w, p, gb, "process_incoming_message(message of another group)")?;
    let keep = w.parties[p].mems[gb].group.clone();
    let res = w.process(p, gb, &msg.bytes, "process_message_of_other_group")?;
    w.stats.fault("N-XGROUP");
    match res {
        Ok(_) => {
            w.mem(p, gb).group = keep;
            Err(Violation::new(
                &w.cfg.property.clone(),
                "cross-group-replay-rejected",
                format!("accepted-message-of-other-group:{:?}:{}", msg.kind, if msg.external { "non-member-sender" } else { "member-sender" }),
                format!("P{p} accepted in g{gb} (epoch {}) the {:?} message {id} that was made for g{}", msg.epoch, msg.kind, msg.g),
            ))
        }
        Err(e) => {
            let cls = err_class(&e);
            w.ev(format!("xgroup P{p} g{gb} msg={id} of g{} err {cls}", msg.g));
            *w.stats.probes.entry(format!("xgroup:{:?}:{cls}", msg.kind)).or_default() += 1;
            after_rejected(w, p, gb, u64::MAX, "message-of-other-group", &cls, pre)?;
            Ok(true)
        }
    }
}

/// C05 / C19: p takes a late message of a newer past epoch, then one of an older past epoch, then is offered the first
/// one again - all without storing in between. The replay must be refused.
pub fn do_late_seq(w: &mut World, p: usize, g: usize) -> VResult<bool> {
    if !w.live(p, g) {
        return Ok(false);
    }
    let epoch = w.epoch_of(p, g).unwrap();
    let inbox: Vec<u64> = w.parties[p].mems[g].inbox.clone();
    let mut by_epoch: BTreeMap<u64, u64> = BTreeMap::new();
    for id in inbox {
        let m = &w.msgs[&id];
        if m.kind == MsgKind::App && m.epoch < epoch && expect_msg(w, p, g, id) != Expect::MustErr && w.parties[p].mems[g].ret_disk.contains(&m.epoch) {
            by_epoch.entry(m.epoch).or_insert(id);
        }
    }
    if by_epoch.len() < 2 {
        return Ok(false);
    }
    let (_, newer) = by_epoch.iter().next_back().map(|(e, i)| (*e, *i)).unwrap();
    let (_, older) = by_epoch.iter().next().map(|(e, i)| (*e, *i)).unwrap();
    w.stats.probe("late-messages-of-two-stored-epochs-then-replay");
    w.deliver_one(p, g, newer, true)?;
    w.deliver_one(p, g, older, true)?;
    w.stats.fault("N-DUP");
    w.deliver_one(p, g, newer, false)?;
    Ok(true)
}


/// The application empties p's proposal cache (`Group::clear_proposal_cache`): sent and received proposals are gone,
/// nothing else changes; the next commit of p carries no proposal by reference; public proposals can be taken again.
pub fn do_clear_cache(w: &mut World, p: usize, g: usize) -> VResult<bool> {
    if !w.live(p, g) || w.parties[p].mems[g].pending.is_some() || w.parties[p].mems[g].cached.is_empty() {
        return Ok(false);
    }
    let prop = w.cfg.property.clone();
    let before = h1(w.parties[p].mems[g].group.as_ref().unwrap()).unwrap_or_default();
    let _ = lib_call(w, p, Some(g), "clear_proposal_cache", |w| {
        w.parties[p].mems[g].group.as_mut().unwrap().clear_proposal_cache();
        Ok(Ok(()))
    })?;
    w.stats.op("clear_proposal_cache");
    w.stats.check("clear-proposal-cache-clears-only-the-cache");
    let after = h1(w.parties[p].mems[g].group.as_ref().unwrap()).unwrap_or_default();
    let mut d = diff_states(&before, &after, None);
    d.retain(|c| *c != "proposals" && *c != "own_proposals");
    if !d.is_empty() {
        return Err(Violation::new(
            &prop,
            "clear-proposal-cache",
            format!("clear-cache-changed:{}", d.join("+")),
            format!("P{p}: clear_proposal_cache() changed {:?}", d),
        ));
    }
    // an empty cache is encoded as an empty map / list: one zero length byte
    for name in ["proposals", "own_proposals"] {
        if let Some((_, v)) = after.iter().find(|(n, _)| *n == name) {
            if v.as_slice() != [0u8] {
                return Err(Violation::new(
                    &prop,
                    "clear-proposal-cache",
                    format!("cache-not-empty:{name}"),
                    format!("P{p}: after clear_proposal_cache() the component `{name}` is not empty ({} bytes)", v.len()),
                ));
            }
        }
    }
    let dropped: Vec<u64> = w.parties[p].mems[g].cached.iter().copied().collect();
    w.parties[p].mems[g].cached.clear();
    w.ev(format!("clear-cache P{p} g{g} dropped={dropped:?}"));
    let epoch = w.epoch_of(p, g).unwrap_or(0);
    for id in dropped {
        w.ext.cache_cleared.insert((p, g, id));
        // the delivery service can hand out the public proposals of the epoch again (the key of an encrypted one is spent)
        let m = &w.msgs[&id];
        if m.epoch == epoch && m.sender != p && !m.private && !w.parties[p].mems[g].inbox.contains(&id) {
            w.parties[p].mems[g].inbox.push(id);
        }
    }
    Ok(true)
}


/// C18: the application replaces the value of an external PSK under the same id (a rotated secret): every party that
/// held the common value registers the new one, some parties that had nothing register it for the first time. What a
/// party registered last is what it holds - the store must hand exactly that to the library from now on.
pub fn do_psk_rotate(w: &mut World, id: u64, pick: u64) -> VResult<bool> {
    let id = (id % 4) as u8;
    let key = vec![b'k', id];
    let prop = w.cfg.property.clone();
    // a value is replaced between two uses, not while a commit or a Welcome made with the old one is under way
    for g in 0..w.groups.len() {
        let latest = w.groups[g].log.len() as u64;
        if w.groups[g].candidates.get(&latest).map(|c| !c.is_empty()).unwrap_or(false) {
            return Ok(false);
        }
        for p in 0..w.parties.len() {
            let Some(m) = w.mem_ref(p, g) else { continue };
            if m.welcome.is_some() || m.ext_pending.is_some() || m.pending.is_some() || !m.detached.is_empty() {
                return Ok(false);
            }
            if m.group.is_some() && matches!(m.status, Status::Member) && w.epoch_of(p, g) != Some(latest) {
                return Ok(false);
            }
        }
    }
    let new_value = crate::prng::Prng::new(crate::prng::mix(&[w.seed, 0x9507, id as u64, w.step_no as u64])).bytes(32);
    // the value most parties hold now
    let mut counts: BTreeMap<Vec<u8>, usize> = BTreeMap::new();
    for p in 0..w.parties.len() {
        if let Some(v) = w.parties[p].pskstore.peek(&key) {
            *counts.entry(v).or_default() += 1;
        }
    }
    let Some(common) = counts.into_iter().max_by_key(|(_, n)| *n).map(|(v, _)| v) else { return Ok(false) };
    w.stats.op("psk_rotate");
    for p in 0..w.parties.len() {
        let cur = w.parties[p].pskstore.peek(&key);
        let give = match &cur {
            Some(v) => *v == common,
            None => crate::prng::mix(&[w.seed, pick, p as u64, 0x9508]) % 3 == 0,
        };
        if !give {
            continue;
        }
        w.parties[p].pskstore.put(&key, &new_value);
        w.stats.check("registered-psk-is-the-one-the-store-returns");
        if w.parties[p].pskstore.stored(&key).as_deref() != Some(&new_value[..]) {
            return Err(Violation::new(
                &prop,
                "psk-holders",
                format!("psk-store-returns-another-value:{}", if cur.is_some() { "replaced" } else { "first" }),
                format!("P{p}: after the application registered a new value for external PSK k{id} ({}), the PSK store returns another value to the library", if cur.is_some() { "replacing an older one" } else { "for the first time" }),
            ));
        }
    }
    w.ev(format!("psk-rotate k{id}"));
    Ok(true)
}

/// C14: hand-made Ed25519 verification inputs that no honest signer produces - public key and R taken from the
/// points of small order, S = 0 or a non-canonical S - go through the provider seam like any other verification:
/// the primary and the cross provider must give the same verdict.
pub fn do_crafted_verify(w: &mut World, p: usize, pick: u64) -> VResult<bool> {
    if !matches!(w.cfg.suite, 1 | 3) || p >= w.parties.len() {
        return Ok(false);
    }
    // encodings of the eight points of small order on edwards25519 (and two non-canonical encodings of them)
    const SMALL: [&str; 10] = [
        "0100000000000000000000000000000000000000000000000000000000000000",
        "ecffffffffffffffffffffffffffffffffffffffffffffffffffffffffffff7f",
        "0000000000000000000000000000000000000000000000000000000000000000",
        "0000000000000000000000000000000000000000000000000000000000000080",
        "26e8958fc2b227b045c3f489f2ef98f0d5dfac05d3c63339b13802886d53fc05",
        "26e8958fc2b227b045c3f489f2ef98f0d5dfac05d3c63339b13802886d53fc85",
        "c7176a703d4dd84fba3c0b760d10670f2a2053fa2c39ccc64ec7fd7792ac037a",
        "c7176a703d4dd84fba3c0b760d10670f2a2053fa2c39ccc64ec7fd7792ac03fa",
        "0100000000000000000000000000000000000000000000000000000000000080",
        "eeffffffffffffffffffffffffffffffffffffffffffffffffffffffffffff7f",
    ];
    let pk = hex::decode(SMALL[(pick % 10) as usize]).unwrap_or_default();
    let r = hex::decode(SMALL[((pick / 10) % 10) as usize]).unwrap_or_default();
    let s: Vec<u8> = match (pick / 100) % 3 {
        0 => vec![0u8; 32],
        // L (the group order): a non-canonical encoding of S = 0
        1 => hex::decode("edd3f55c1a631258d69cf7a2def9de1400000000000000000000000000000010").unwrap_or_default(),
        _ => {
            let mut v = vec![0u8; 32];
            v[0] = 1;
            v
        }
    };
    let (pi, ri, si) = ((pick % 10) as usize, ((pick / 10) % 10) as usize, ((pick / 100) % 3) as usize);
    let sig = [r, s].concat();
    let data = crate::prng::Prng::new(crate::prng::mix(&[w.seed, pick, 0xc4af])).bytes((pick % 40) as usize);
    w.stats.op("crafted_verify");
    w.stats.fault("K-SMALL-ORDER");
    let prop = w.cfg.property.clone();
    let suite = w.suite;
    let mut verdicts: Vec<(&'static str, bool)> = vec![];
    for kind in [crate::crypto::ProviderKind::RustCrypto, crate::crypto::ProviderKind::OpenSsl, crate::crypto::ProviderKind::AwsLc] {
        use mls_rs::CryptoProvider;
        let Some(csp) = crate::crypto::SimCrypto::new(kind, w.parties[p].ctx.clone()).cipher_suite_provider(suite) else {
            continue;
        };
        let r = guarded(&prop, "verify(crafted Ed25519 input)", || {
            use mls_rs::CipherSuiteProvider;
            Ok::<_, MlsError>(csp.verify(&pk.clone().into(), &sig, &data))
        })?;
        verdicts.push((kind.name(), matches!(r, Ok(Ok(())))));
    }
    if verdicts.len() < 2 {
        return Ok(false);
    }
    *w.stats.probes.entry(format!("crafted-ed25519-verify:{}", if verdicts[0].1 { "accepted" } else { "rejected" })).or_default() += 1;
    w.stats.check("ed25519-verdicts-agree-on-crafted-input");
    if verdicts.iter().any(|v| v.1 != verdicts[0].1) {
        // classes: the encoding of the public key and of R (canonical / non-canonical point of small order), S
        let class = |i: usize| if matches!(i, 0 | 1 | 2 | 4 | 6) { "canonical" } else { "non-canonical" };
        let skind = ["zero", "group-order", "one"][si];
        let pattern: Vec<String> = verdicts.iter().map(|(n, ok)| format!("{n}={}", if *ok { "accept" } else { "reject" })).collect();
        let sigs = format!("ed25519-verdicts-differ:pk-{}:r-{}:s-{skind}:{}", class(pi), class(ri), pattern.join(","));
        if std::env::var("VERIF_C14_ENUM").is_ok() {
            eprintln!("ENUM {sigs} pk={} r={}", SMALL[pi], SMALL[ri]);
            return Ok(true);
        }
        if w.known.iter().any(|k| *k == sigs) {
            w.ext.known_hits.push(sigs);
            return Ok(true);
        }
        return Err(Violation::new(
            &prop,
            "ed25519-verdicts-agree",
            sigs,
            format!(
                "the providers disagree on a hand-made Ed25519 verification: public key {} (small order), R {}, S {skind}, {} byte message: {}",
                SMALL[pi],
                SMALL[ri],
                data.len(),
                pattern.join(", ")
            ),
        ));
    }
    Ok(true)
}
