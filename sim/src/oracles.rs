//! Property-specific oracles and model expectations, called from the hooks in `world.rs`.

use std::collections::{BTreeMap, BTreeSet};
use std::sync::Arc;

use mls_rs::crypto::SignatureSecretKey;
use mls_rs::error::MlsError;
use mls_rs::group::proposal::Proposal;
use mls_rs::group::{CommitMessageDescription, CommitOutput};
use mls_rs::identity::SigningIdentity;
use mls_rs::{ExtensionList, MlsMessage};

use crate::types::*;
use crate::world::*;

pub type RawProp = Arc<dyn Fn(&mut SimGroup) -> Result<MlsMessage, MlsError>>;

#[derive(Default)]
pub struct OracleState {
    pub new_identities: BTreeMap<u64, (SignatureSecretKey, SigningIdentity)>,
    pub dropped: Vec<(usize, usize, u64)>,
    pub requeued: BTreeSet<(usize, u64)>,
    pub known_hits: Vec<String>,
    /// (party, group, epoch): the party crashed with unwritten private sends in that epoch, so its
    /// sender ratchet rolled back and receivers may legitimately reject what it sends afterwards
    pub rolled_back: BTreeSet<(usize, usize, u64)>,
}

#[derive(Default)]
pub struct CommitExtras {
    pub res_psk_epochs: Vec<u64>,
    pub raw_proposals: Vec<Proposal>,
    pub reinit_gid: Vec<u8>,
}

#[derive(Default)]
pub struct PropExtras {
    pub res_epoch: u64,
    pub reinit_gid: Vec<u8>,
    pub raw: Option<RawProp>,
}

/// state captured before an operation (H1 component-wise state and friends)
#[derive(Default)]
pub struct Pre {
    pub state: Option<Vec<(&'static str, Vec<u8>)>>,
    pub clone: Option<SimGroup>,
    pub disk: Option<crate::seams::StoredView>,
    pub what: String,
}

pub fn h1(group: &SimGroup) -> Result<Vec<(&'static str, Vec<u8>)>, MlsError> {
    group.verif_state()
}

/// Component-wise comparison of two H1 states. `repo_updates` follows the rule of DESIGN §5: an entry
/// that is new after the call is a cache fill and must equal the stored record; entries present before
/// must be byte-identical.
pub fn diff_states(
    before: &[(&'static str, Vec<u8>)],
    after: &[(&'static str, Vec<u8>)],
    repo_after: Option<(&SimGroup, &crate::seams::SimGroupStorage, &[u8])>,
) -> Vec<&'static str> {
    let mut d = vec![];
    for (name, b) in before {
        let a = after.iter().find(|(n, _)| n == name).map(|(_, v)| v);
        if a == Some(b) {
            continue;
        }
        if *name == "repo_updates" {
            if let Some((group, store, gid)) = repo_after {
                if let Ok((_, upd_after)) = group.verif_repo_pending() {
                    // decode `before` list is not needed: compare through ids
                    let before_ids = decode_repo_list(b);
                    let mut ok = true;
                    for (id, bytes) in &upd_after {
                        match before_ids.iter().find(|(i, _)| i == id) {
                            Some((_, old)) => {
                                if old != bytes {
                                    ok = false;
                                }
                            }
                            None => {
                                let disk = store.view(gid).epochs.get(id).cloned();
                                if disk.as_ref() != Some(bytes) {
                                    ok = false;
                                }
                            }
                        }
                    }
                    if before_ids.iter().any(|(i, _)| !upd_after.iter().any(|(j, _)| j == i)) {
                        ok = false;
                    }
                    if ok {
                        continue;
                    }
                }
            }
        }
        d.push(*name);
    }
    d
}

/// decode the MLS encoding of Vec<(u64, Vec<u8>)> produced by the H1 hook
fn decode_repo_list(b: &[u8]) -> Vec<(u64, Vec<u8>)> {
    use mls_rs::mls_rs_codec::MlsDecode;
    Vec::<(u64, Vec<u8>)>::mls_decode(&mut &b[..]).unwrap_or_default()
}

pub fn state_oracle_on(w: &World) -> bool {
    w.cfg.oracle("state-unchanged")
}

fn capture(w: &World, p: usize, g: usize, what: &str) -> Pre {
    let mut pre = Pre {
        what: what.to_string(),
        ..Default::default()
    };
    if let Some(group) = w.mem_ref(p, g).and_then(|m| m.group.as_ref()) {
        pre.state = h1(group).ok();
        pre.clone = Some(group.clone());
    }
    pre
}

/// after an operation returned Err: the member must be exactly as before
pub fn check_unchanged(
    w: &mut World,
    p: usize,
    g: usize,
    pre: Pre,
    kind: &str,
    cls: &str,
    detail_ctx: String,
) -> VResult<()> {
    let Some(before) = pre.state else { return Ok(()) };
    let gid = w.groups[g].gid.clone();
    let (diffs, after_ok) = {
        let Some(group) = w.mem_ref(p, g).and_then(|m| m.group.as_ref()) else {
            return Ok(());
        };
        match h1(group) {
            Ok(after) => (
                diff_states(&before, &after, Some((group, &w.parties[p].gstore, &gid))),
                true,
            ),
            Err(_) => (vec!["<state not encodable>"], false),
        }
    };
    let _ = after_ok;
    w.stats.check("state-unchanged-after-err");
    *w.stats
        .probes
        .entry(format!("rejected:{kind}:{cls}"))
        .or_default() += 1;
    if diffs.is_empty() {
        return Ok(());
    }
    let signature = format!("changed:{}:{kind}:{cls}", diffs.join("+"));
    let prop = w.cfg.property.clone();
    if w.known.iter().any(|k| *k == signature) {
        // a recorded finding: note it, undo the damage so it does not cascade, carry on
        w.ext.known_hits.push(signature);
        if let Some(c) = pre.clone {
            w.mem(p, g).group = Some(c);
        }
        return Ok(());
    }
    Err(Violation::new(
        &prop,
        "state-unchanged-after-error",
        signature,
        format!(
            "P{p}: {} returned Err({cls}) but the member's state changed in component(s) {:?} ({detail_ctx})",
            pre.what, diffs
        ),
    ))
}

pub fn gce_list(v: u8) -> ExtensionList {
    let mut l = ExtensionList::new();
    l.set(mls_rs::Extension::new(
        mls_rs::extension::ExtensionType::new(0xF001),
        vec![v; (v % 5) as usize + 1],
    ));
    l
}

pub fn leaf_ext_list(v: u8) -> ExtensionList {
    let mut l = ExtensionList::new();
    l.set(mls_rs::Extension::new(
        mls_rs::extension::ExtensionType::new(0xF001),
        vec![v; 2],
    ));
    l
}

pub fn clear_modifiers() {}

pub fn on_epoch(_w: &mut World, _p: usize, _g: usize, _how: &str) -> VResult<()> {
    Ok(())
}

pub fn after_step(w: &mut World) -> VResult<()> {
    // provider disagreements (C14) and mirror divergences (C06/C19) surface here
    let cross = crate::crypto::rec_take_cross_violations();
    if let Some(c) = cross.first() {
        return Err(Violation::new(
            &w.cfg.property,
            "provider-cross-check",
            format!("cross:{}", c.split(' ').nth(3).unwrap_or("")),
            c.clone(),
        ));
    }
    for p in 0..w.parties.len() {
        let mv = std::mem::take(&mut w.parties[p].faults.lock().unwrap().mirror_violations);
        if let Some(m) = mv.first() {
            return Err(Violation::new(
                &w.cfg.property,
                "storage-mirror",
                "mirror-divergence".into(),
                format!("P{p}: {m}"),
            ));
        }
    }
    Ok(())
}

pub fn apply_mutation(orig: &[u8], m: &Mutation, other: Option<&[u8]>) -> Vec<u8> {
    let mut b = orig.to_vec();
    match m {
        Mutation::Flip { pos, bit } => {
            if !b.is_empty() {
                let i = *pos as usize % b.len();
                b[i] ^= 1 << (bit % 8);
            }
        }
        Mutation::Trunc { len } => {
            if !b.is_empty() {
                b.truncate(*len as usize % b.len());
            }
        }
        Mutation::Splice { at, .. } => {
            if let Some(o) = other {
                let n = b.len().min(o.len());
                if n > 0 {
                    let i = *at as usize % n;
                    b.truncate(i);
                    b.extend_from_slice(&o[i..]);
                }
            }
        }
        Mutation::Set { pos, bytes } => {
            for (k, v) in bytes.iter().enumerate() {
                let i = *pos as usize + k;
                if i < b.len() {
                    b[i] = *v;
                }
            }
        }
        Mutation::Insert { pos, bytes } => {
            let i = (*pos as usize).min(b.len());
            let tail = b.split_off(i);
            b.extend_from_slice(bytes);
            b.extend_from_slice(&tail);
        }
        Mutation::Resender { .. } | Mutation::None => {}
    }
    b
}

pub fn mutation_kind(m: &Mutation) -> &'static str {
    match m {
        Mutation::Flip { .. } => "N-FLIP",
        Mutation::Trunc { .. } => "N-TRUNC",
        Mutation::Splice { .. } => "N-SPLICE",
        Mutation::Set { .. } => "N-SET",
        Mutation::Insert { .. } => "N-LEN",
        Mutation::Resender { .. } => "N-RESENDER",
        Mutation::None => "none",
    }
}

/// deliver a corrupted copy of message `msg` to p: must be rejected (C03), never panic, and leave p
/// unchanged (C04)
pub fn do_corrupt(w: &mut World, p: usize, g: usize, msg: u64, m: &Mutation) -> VResult<bool> {
    if !w.live(p, g) {
        return Ok(false);
    }
    let Some(orig) = w.msgs.get(&msg).cloned() else {
        return Ok(false);
    };
    let other = match m {
        Mutation::Splice { other, .. } => match w.msgs.get(other) {
            Some(o) => Some(o.bytes.clone()),
            None => return Ok(false),
        },
        _ => None,
    };
    let bytes = apply_mutation(&orig.bytes, m, other.as_deref());
    if bytes == orig.bytes || other.as_deref() == Some(&bytes[..]) {
        return Ok(false);
    }
    let prop = w.cfg.property.clone();
    let epoch = w.epoch_of(p, g).unwrap();
    let kind = mutation_kind(m);
    w.stats.fault(kind);
    let pre = before_op(w, p, g, "process_incoming_message(corrupted copy)")?;
    let res = w.process(p, g, &bytes, "process_corrupted")?;
    match res {
        Ok(_) => Err(Violation::new(
            &prop,
            "modified-message-rejected",
            format!("accepted-modified:{:?}:{kind}", orig.kind),
            format!(
                "P{p} (epoch {epoch}) accepted a modified copy ({m:?}) of {:?} message {msg} sent in epoch {} by P{}",
                orig.kind, orig.epoch, orig.sender
            ),
        )),
        Err(e) => {
            let cls = err_class(&e);
            w.ev(format!(
                "corrupt P{p} g{g} e{epoch} msg={msg} ({:?} e{}) {kind} err {cls}",
                orig.kind, orig.epoch
            ));
            w.stats.result(&format!("corrupt:err:{cls}"));
            let k = format!(
                "corrupt-{}{}",
                match orig.kind {
                    MsgKind::Commit => "commit",
                    MsgKind::Proposal => "proposal",
                    MsgKind::App => "app",
                },
                if orig.private { "-private" } else { "-public" }
            );
            after_rejected(w, p, g, msg, &k, &cls, pre)?;
            Ok(true)
        }
    }
}

pub fn do_replay(_w: &mut World, _p: usize, _g: usize, _msg: u64) -> VResult<bool> {
    Ok(false)
}

pub fn do_special(w: &mut World, kind: &str, a: u64, b: u64, c: u64) -> VResult<bool> {
    match kind {
        "byz" => do_byz_commit(w, a as usize, 0, b as u8, c as u8),
        _ => Ok(false),
    }
}

/// B-MOD (DESIGN §4): member p, an honest library with the H4 commit modifiers switched on, signs a
/// structurally invalid commit. Every receiver must reject it (C03), must not panic and must be
/// unchanged afterwards (C04). The commit is built on a clone of p and never reaches the DS log.
pub fn do_byz_commit(w: &mut World, p: usize, g: usize, code: u8, param: u8) -> VResult<bool> {
    if !w.live(p, g) || w.parties[p].mems[g].pending.is_some() {
        return Ok(false);
    }
    let prop = w.cfg.property.clone();
    let epoch = w.epoch_of(p, g).unwrap();
    let receivers: Vec<usize> = w
        .live_members(g)
        .into_iter()
        .filter(|q| *q != p && w.epoch_of(*q, g) == Some(epoch))
        .collect();
    if receivers.is_empty() {
        return Ok(false);
    }
    w.set_commit_options(
        p,
        &CommitSpec {
            path_required: true,
            ratchet_tree_ext: true,
            single_welcome: true,
            ..Default::default()
        },
    );
    let now = w.now();
    let mut clone = w.parties[p].mems[g].group.as_ref().unwrap().clone();
    mls_rs::group::verif_hooks::modifiers::set(code, param);
    let res = guarded(&prop, "commit(byzantine)", || {
        clone.commit_builder().commit_time(now).build()
    });
    let fired = mls_rs::group::verif_hooks::modifiers::clear();
    let res = res?;
    w.stats.op("byz_commit");
    let out = match res {
        Err(e) => {
            w.ev(format!("byz P{p} code={code} build err {}", err_class(&e)));
            w.stats.result(&format!("byz:build-err:{}", err_class(&e)));
            return Ok(true);
        }
        Ok(o) => o,
    };
    if fired == 0 {
        w.ev(format!("byz P{p} code={code} modifier did not apply"));
        return Ok(true);
    }
    w.stats.fault("B-MOD");
    let bytes = out.commit_message.to_bytes().unwrap_or_default();
    // 6/7/8 (ciphertext list length, damaged ciphertext) and 31 (path secret sealed to a wrong copath key)
    // are only detectable by the receivers that decrypt at that node
    let must_reject = !matches!(code, 6 | 7 | 8 | 31);
    for q in receivers {
        let pre = before_op(w, q, g, "process_incoming_message(byzantine commit)")?;
        let keep = w.parties[q].mems[g].group.clone();
        let r = w.process(q, g, &bytes, "process_byzantine_commit")?;
        match r {
            Ok(rm) => {
                // a member that the commit removes cannot check the update path (it gets no secrets)
                let removed = matches!(
                    &rm,
                    mls_rs::group::ReceivedMessage::Commit(d)
                        if matches!(d.effect, mls_rs::group::CommitEffect::Removed { .. })
                );
                if must_reject && !removed {
                    return Err(Violation::new(
                        &prop,
                        "invalid-commit-rejected",
                        format!("accepted-structurally-invalid-commit:{code}"),
                        format!(
                            "P{q} accepted a commit from P{p} whose update path / leaf / tree was structurally invalid (modifier {code}, param {param})"
                        ),
                    ));
                }
                // a receiver that does not decrypt the damaged ciphertext cannot tell: put it back
                w.mem(q, g).group = keep;
                w.stats.probe(&format!("byz:{code}:undetectable-for-receiver"));
                w.ev(format!("byz P{p} code={code} -> P{q} accepted (not detectable there)"));
            }
            Err(e) => {
                let cls = err_class(&e);
                w.ev(format!("byz P{p} code={code} param={param} -> P{q} err {cls}"));
                w.stats.probe(&format!("byz:{code}:{cls}"));
                after_rejected(w, q, g, u64::MAX, &format!("byz-commit-{code}"), &cls, pre)?;
            }
        }
    }
    Ok(true)
}

pub fn commit_extras(w: &mut World, _p: usize, g: usize, spec: &CommitSpec) -> VResult<CommitExtras> {
    let mut x = CommitExtras::default();
    x.reinit_gid = format!("reinit-of-{g}-{:08x}", w.seed as u32).into_bytes();
    let latest = w.groups[g].log.len() as u64;
    for back in &spec.res_psks {
        x.res_psk_epochs.push(latest.saturating_sub(*back as u64));
    }
    Ok(x)
}

pub fn proposal_extras(w: &mut World, _p: usize, g: usize, spec: &PropSpec) -> VResult<PropExtras> {
    let mut x = PropExtras::default();
    x.reinit_gid = format!("reinit-of-{g}-{:08x}", w.seed as u32).into_bytes();
    if let PropSpec::ResPsk { back } = spec {
        x.res_epoch = (w.groups[g].log.len() as u64).saturating_sub(*back as u64);
    }
    Ok(x)
}

pub fn before_op(w: &mut World, p: usize, g: usize, what: &str) -> VResult<Pre> {
    if state_oracle_on(w) || w.cfg.oracle("pending-model") || w.cfg.oracle("accepted-state") {
        return Ok(capture(w, p, g, what));
    }
    Ok(Pre {
        what: what.to_string(),
        ..Default::default()
    })
}

pub fn before_join(_w: &mut World, _p: usize, _g: usize) -> VResult<Pre> {
    Ok(Pre::default())
}

pub fn after_failed_op(
    w: &mut World,
    p: usize,
    g: usize,
    what: &str,
    cls: &str,
    pre: Pre,
    _spec: Option<&CommitSpec>,
) -> VResult<()> {
    if state_oracle_on(w) {
        check_unchanged(w, p, g, pre, what, cls, "a commit / proposal / send the member failed to build".into())?;
    }
    Ok(())
}

pub fn after_commit_built(
    _w: &mut World,
    _p: usize,
    _g: usize,
    _id: u64,
    _pre: Pre,
    _out: &CommitOutput,
) -> VResult<()> {
    Ok(())
}

pub fn after_ext_commit_built(_w: &mut World, _p: usize, _g: usize, _id: u64) -> VResult<()> {
    Ok(())
}

pub fn on_wire(_w: &mut World, _bytes: &[u8], _kind: &str) -> VResult<()> {
    Ok(())
}

pub fn after_sent(_w: &mut World, _p: usize, _g: usize, _id: u64) -> VResult<()> {
    Ok(())
}

pub fn after_join(_w: &mut World, _p: usize, _g: usize, _how: &str) -> VResult<()> {
    Ok(())
}

fn holds_psks(w: &World, p: usize, msg: &Msg) -> Option<bool> {
    // Some(true): holds all external PSKs with the committer's values; Some(false): lacks / differs
    let s = msg.sender;
    for id in &msg.ext_psks {
        let key = vec![b'k', *id];
        let a = w.parties[s].pskstore.peek(&key);
        let b = w.parties[p].pskstore.peek(&key);
        if a.is_none() || a != b {
            return Some(false);
        }
    }
    Some(true)
}

pub fn expect_commit(w: &World, p: usize, g: usize, cid: u64) -> Expect {
    let msg = &w.msgs[&cid];
    let Some(epoch) = w.epoch_of(p, g) else {
        return Expect::May;
    };
    if msg.epoch != epoch {
        return Expect::MustErr;
    }
    let member = w.groups[g]
        .members
        .get(&epoch)
        .map(|m| m.contains_key(&p))
        .unwrap_or(false);
    if !member {
        return Expect::MustErr;
    }
    let mem = &w.parties[p].mems[g];
    if msg.sender == p && !msg.external {
        return if mem.pending == Some(cid) {
            Expect::MustOk
        } else {
            Expect::May
        };
    }
    if holds_psks(w, p, msg) == Some(false) {
        return Expect::MustErr;
    }
    if msg.private && w.ext.rolled_back.contains(&(msg.sender, g, msg.epoch)) {
        return Expect::May;
    }
    if !msg.res_psks.is_empty() {
        return Expect::May;
    }
    if msg.refs.iter().any(|r| !mem.cached.contains(r)) {
        return Expect::May;
    }
    if msg.spec.as_ref().map(|s| s.modifier != 0).unwrap_or(false) {
        return Expect::MustErr;
    }
    Expect::MustOk
}

pub fn expect_join(w: &World, p: usize, _g: usize, cid: u64) -> Expect {
    let msg = &w.msgs[&cid];
    if holds_psks(w, p, msg) == Some(false) {
        return Expect::MustErr;
    }
    if !msg.res_psks.is_empty() {
        return Expect::MustErr;
    }
    Expect::MustOk
}

pub fn expect_msg(w: &World, p: usize, g: usize, id: u64) -> Expect {
    let msg = &w.msgs[&id];
    let Some(epoch) = w.epoch_of(p, g) else {
        return Expect::May;
    };
    let member_then = w.groups[g]
        .members
        .get(&msg.epoch)
        .map(|m| m.contains_key(&p))
        .unwrap_or(false);
    let mem = &w.parties[p].mems[g];
    match msg.kind {
        MsgKind::App => {
            if !member_then || msg.epoch > epoch || msg.epoch < mem.join_epoch {
                return Expect::MustErr;
            }
            if msg.epoch < epoch {
                return Expect::May;
            }
            if mem.accepted.contains(&id) {
                return Expect::MustErr;
            }
            if w.ext.rolled_back.contains(&(msg.sender, g, msg.epoch)) {
                return Expect::May;
            }
            Expect::MustOk
        }
        MsgKind::Proposal => {
            if msg.epoch != epoch || !member_then {
                return Expect::MustErr;
            }
            if mem.cached.contains(&id) {
                return Expect::May;
            }
            if matches!(msg.pspec, Some(PropSpec::Template { .. })) {
                return Expect::May;
            }
            if msg.private && w.ext.rolled_back.contains(&(msg.sender, g, msg.epoch)) {
                return Expect::May;
            }
            Expect::MustOk
        }
        MsgKind::Commit => Expect::May,
    }
}

pub fn after_commit_processed(
    _w: &mut World,
    _p: usize,
    _g: usize,
    _cid: u64,
    _pre: Pre,
    _desc: &CommitMessageDescription,
) -> VResult<()> {
    Ok(())
}

pub fn after_reinit(_w: &mut World, _p: usize, _g: usize, _cid: u64) -> VResult<()> {
    Ok(())
}

pub fn after_rejected(
    w: &mut World,
    p: usize,
    g: usize,
    id: u64,
    kind: &str,
    cls: &str,
    pre: Pre,
) -> VResult<()> {
    if state_oracle_on(w) {
        let ctx = match w.msgs.get(&id) {
            Some(m) => format!(
                "message {id}: {:?} sent in epoch {} by P{}, private={}",
                m.kind, m.epoch, m.sender, m.private
            ),
            None => format!("message {id}"),
        };
        check_unchanged(w, p, g, pre, kind, cls, ctx)?;
    }
    Ok(())
}

pub fn stuck_reason(w: &World, p: usize, _g: usize, cid: u64) -> Option<String> {
    let msg = &w.msgs[&cid];
    if holds_psks(w, p, msg) == Some(false) {
        return Some("lacks PSK".into());
    }
    if !msg.res_psks.is_empty() {
        return Some("resumption PSK not retained".into());
    }
    if msg.private && w.ext.rolled_back.contains(&(msg.sender, _g, msg.epoch)) {
        return Some("sender ratchet rolled back by crash".into());
    }
    let mem = &w.parties[p].mems[_g];
    if msg
        .refs
        .iter()
        .any(|r| w.msgs[r].sender == p && !mem.cached.contains(r))
    {
        // crashed after proposing and before writing: the proposal only exists on the wire
        return Some("own proposal lost in crash".into());
    }
    None
}

pub fn after_proposal_received(
    _w: &mut World,
    _p: usize,
    _g: usize,
    _id: u64,
    _d: &mls_rs::group::ProposalMessageDescription,
) -> VResult<()> {
    Ok(())
}

pub fn after_accepted(_w: &mut World, _p: usize, _g: usize, _id: u64, _pre: Pre) -> VResult<()> {
    Ok(())
}

pub fn after_write(_w: &mut World, _p: usize, _g: usize, _pre: Pre) -> VResult<()> {
    Ok(())
}

pub fn after_reload(_w: &mut World, _p: usize, _g: usize) -> VResult<()> {
    Ok(())
}

pub fn after_clear_pending(_w: &mut World, _p: usize, _g: usize, _pre: Pre) -> VResult<()> {
    Ok(())
}
