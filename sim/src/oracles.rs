//! Property-specific oracles and model expectations, called from the hooks in `world.rs`.

use std::collections::{BTreeMap, BTreeSet};
use std::sync::Arc;

use mls_rs::crypto::SignatureSecretKey;
use mls_rs::error::MlsError;
use mls_rs::group::proposal::Proposal;
use mls_rs::group::{CommitMessageDescription, CommitOutput};
use mls_rs::identity::SigningIdentity;
use mls_rs::{ExtensionList, MlsMessage};

use crate::types::*;
use crate::world::*;

pub type RawProp = Arc<dyn Fn(&mut SimGroup) -> Result<MlsMessage, MlsError>>;

#[derive(Default)]
pub struct OracleState {
    pub new_identities: BTreeMap<u64, (SignatureSecretKey, SigningIdentity)>,
    pub dropped: Vec<(usize, usize, u64)>,
    pub requeued: BTreeSet<(usize, u64)>,
    pub known_hits: Vec<String>,
    /// (party, group, epoch): the party crashed with unwritten private sends in that epoch, so its
    /// sender ratchet rolled back and receivers may legitimately reject what it sends afterwards
    pub rolled_back: BTreeSet<(usize, usize, u64)>,
}

#[derive(Default)]
pub struct CommitExtras {
    pub res_psk_epochs: Vec<u64>,
    pub raw_proposals: Vec<Proposal>,
    pub reinit_gid: Vec<u8>,
}

#[derive(Default)]
pub struct PropExtras {
    pub res_epoch: u64,
    pub reinit_gid: Vec<u8>,
    pub raw: Option<RawProp>,
}

/// state captured before an operation (H1 component-wise state and friends)
#[derive(Default)]
pub struct Pre {
    pub state: Option<Vec<(&'static str, Vec<u8>)>>,
}

pub fn gce_list(v: u8) -> ExtensionList {
    let mut l = ExtensionList::new();
    l.set(mls_rs::Extension::new(
        mls_rs::extension::ExtensionType::new(0xF001),
        vec![v; (v % 5) as usize + 1],
    ));
    l
}

pub fn leaf_ext_list(v: u8) -> ExtensionList {
    let mut l = ExtensionList::new();
    l.set(mls_rs::Extension::new(
        mls_rs::extension::ExtensionType::new(0xF001),
        vec![v; 2],
    ));
    l
}

pub fn clear_modifiers() {}

pub fn on_epoch(_w: &mut World, _p: usize, _g: usize, _how: &str) -> VResult<()> {
    Ok(())
}

pub fn after_step(w: &mut World) -> VResult<()> {
    // provider disagreements (C14) and mirror divergences (C06/C19) surface here
    let cross = crate::crypto::rec_take_cross_violations();
    if let Some(c) = cross.first() {
        return Err(Violation::new(
            &w.cfg.property,
            "provider-cross-check",
            format!("cross:{}", c.split(' ').nth(3).unwrap_or("")),
            c.clone(),
        ));
    }
    for p in 0..w.parties.len() {
        let mv = std::mem::take(&mut w.parties[p].faults.lock().unwrap().mirror_violations);
        if let Some(m) = mv.first() {
            return Err(Violation::new(
                &w.cfg.property,
                "storage-mirror",
                "mirror-divergence".into(),
                format!("P{p}: {m}"),
            ));
        }
    }
    Ok(())
}

pub fn do_corrupt(_w: &mut World, _p: usize, _g: usize, _msg: u64, _m: &Mutation) -> VResult<bool> {
    Ok(false)
}

pub fn do_replay(_w: &mut World, _p: usize, _g: usize, _msg: u64) -> VResult<bool> {
    Ok(false)
}

pub fn do_special(_w: &mut World, _kind: &str, _a: u64, _b: u64, _c: u64) -> VResult<bool> {
    Ok(false)
}

pub fn commit_extras(w: &mut World, _p: usize, g: usize, spec: &CommitSpec) -> VResult<CommitExtras> {
    let mut x = CommitExtras::default();
    x.reinit_gid = format!("reinit-of-{g}-{:08x}", w.seed as u32).into_bytes();
    let latest = w.groups[g].log.len() as u64;
    for back in &spec.res_psks {
        x.res_psk_epochs.push(latest.saturating_sub(*back as u64));
    }
    Ok(x)
}

pub fn proposal_extras(w: &mut World, _p: usize, g: usize, spec: &PropSpec) -> VResult<PropExtras> {
    let mut x = PropExtras::default();
    x.reinit_gid = format!("reinit-of-{g}-{:08x}", w.seed as u32).into_bytes();
    if let PropSpec::ResPsk { back } = spec {
        x.res_epoch = (w.groups[g].log.len() as u64).saturating_sub(*back as u64);
    }
    Ok(x)
}

pub fn before_op(_w: &mut World, _p: usize, _g: usize, _what: &str) -> VResult<Pre> {
    Ok(Pre::default())
}

pub fn before_join(_w: &mut World, _p: usize, _g: usize) -> VResult<Pre> {
    Ok(Pre::default())
}

pub fn after_failed_op(
    _w: &mut World,
    _p: usize,
    _g: usize,
    _what: &str,
    _cls: &str,
    _pre: Pre,
    _spec: Option<&CommitSpec>,
) -> VResult<()> {
    Ok(())
}

pub fn after_commit_built(
    _w: &mut World,
    _p: usize,
    _g: usize,
    _id: u64,
    _pre: Pre,
    _out: &CommitOutput,
) -> VResult<()> {
    Ok(())
}

pub fn after_ext_commit_built(_w: &mut World, _p: usize, _g: usize, _id: u64) -> VResult<()> {
    Ok(())
}

pub fn on_wire(_w: &mut World, _bytes: &[u8], _kind: &str) -> VResult<()> {
    Ok(())
}

pub fn after_sent(_w: &mut World, _p: usize, _g: usize, _id: u64) -> VResult<()> {
    Ok(())
}

pub fn after_join(_w: &mut World, _p: usize, _g: usize, _how: &str) -> VResult<()> {
    Ok(())
}

fn holds_psks(w: &World, p: usize, msg: &Msg) -> Option<bool> {
    // Some(true): holds all external PSKs with the committer's values; Some(false): lacks / differs
    let s = msg.sender;
    for id in &msg.ext_psks {
        let key = vec![b'k', *id];
        let a = w.parties[s].pskstore.peek(&key);
        let b = w.parties[p].pskstore.peek(&key);
        if a.is_none() || a != b {
            return Some(false);
        }
    }
    Some(true)
}

pub fn expect_commit(w: &World, p: usize, g: usize, cid: u64) -> Expect {
    let msg = &w.msgs[&cid];
    let Some(epoch) = w.epoch_of(p, g) else {
        return Expect::May;
    };
    if msg.epoch != epoch {
        return Expect::MustErr;
    }
    let member = w.groups[g]
        .members
        .get(&epoch)
        .map(|m| m.contains_key(&p))
        .unwrap_or(false);
    if !member {
        return Expect::MustErr;
    }
    let mem = &w.parties[p].mems[g];
    if msg.sender == p && !msg.external {
        return if mem.pending == Some(cid) {
            Expect::MustOk
        } else {
            Expect::May
        };
    }
    if holds_psks(w, p, msg) == Some(false) {
        return Expect::MustErr;
    }
    if msg.private && w.ext.rolled_back.contains(&(msg.sender, g, msg.epoch)) {
        return Expect::May;
    }
    if !msg.res_psks.is_empty() {
        return Expect::May;
    }
    if msg.refs.iter().any(|r| !mem.cached.contains(r)) {
        return Expect::May;
    }
    if msg.spec.as_ref().map(|s| s.modifier != 0).unwrap_or(false) {
        return Expect::MustErr;
    }
    Expect::MustOk
}

pub fn expect_join(w: &World, p: usize, _g: usize, cid: u64) -> Expect {
    let msg = &w.msgs[&cid];
    if holds_psks(w, p, msg) == Some(false) {
        return Expect::MustErr;
    }
    if !msg.res_psks.is_empty() {
        return Expect::MustErr;
    }
    Expect::MustOk
}

pub fn expect_msg(w: &World, p: usize, g: usize, id: u64) -> Expect {
    let msg = &w.msgs[&id];
    let Some(epoch) = w.epoch_of(p, g) else {
        return Expect::May;
    };
    let member_then = w.groups[g]
        .members
        .get(&msg.epoch)
        .map(|m| m.contains_key(&p))
        .unwrap_or(false);
    let mem = &w.parties[p].mems[g];
    match msg.kind {
        MsgKind::App => {
            if !member_then || msg.epoch > epoch || msg.epoch < mem.join_epoch {
                return Expect::MustErr;
            }
            if msg.epoch < epoch {
                return Expect::May;
            }
            if mem.accepted.contains(&id) {
                return Expect::MustErr;
            }
            if w.ext.rolled_back.contains(&(msg.sender, g, msg.epoch)) {
                return Expect::May;
            }
            Expect::MustOk
        }
        MsgKind::Proposal => {
            if msg.epoch != epoch || !member_then {
                return Expect::MustErr;
            }
            if mem.cached.contains(&id) {
                return Expect::May;
            }
            if matches!(msg.pspec, Some(PropSpec::Template { .. })) {
                return Expect::May;
            }
            if msg.private && w.ext.rolled_back.contains(&(msg.sender, g, msg.epoch)) {
                return Expect::May;
            }
            Expect::MustOk
        }
        MsgKind::Commit => Expect::May,
    }
}

pub fn after_commit_processed(
    _w: &mut World,
    _p: usize,
    _g: usize,
    _cid: u64,
    _pre: Pre,
    _desc: &CommitMessageDescription,
) -> VResult<()> {
    Ok(())
}

pub fn after_reinit(_w: &mut World, _p: usize, _g: usize, _cid: u64) -> VResult<()> {
    Ok(())
}

pub fn after_rejected(
    _w: &mut World,
    _p: usize,
    _g: usize,
    _id: u64,
    _kind: &str,
    _cls: &str,
    _pre: Pre,
) -> VResult<()> {
    Ok(())
}

pub fn stuck_reason(w: &World, p: usize, _g: usize, cid: u64) -> Option<String> {
    let msg = &w.msgs[&cid];
    if holds_psks(w, p, msg) == Some(false) {
        return Some("lacks PSK".into());
    }
    if !msg.res_psks.is_empty() {
        return Some("resumption PSK not retained".into());
    }
    if msg.private && w.ext.rolled_back.contains(&(msg.sender, _g, msg.epoch)) {
        return Some("sender ratchet rolled back by crash".into());
    }
    let mem = &w.parties[p].mems[_g];
    if msg
        .refs
        .iter()
        .any(|r| w.msgs[r].sender == p && !mem.cached.contains(r))
    {
        // crashed after proposing and before writing: the proposal only exists on the wire
        return Some("own proposal lost in crash".into());
    }
    None
}

pub fn after_proposal_received(
    _w: &mut World,
    _p: usize,
    _g: usize,
    _id: u64,
    _d: &mls_rs::group::ProposalMessageDescription,
) -> VResult<()> {
    Ok(())
}

pub fn after_accepted(_w: &mut World, _p: usize, _g: usize, _id: u64, _pre: Pre) -> VResult<()> {
    Ok(())
}

pub fn after_write(_w: &mut World, _p: usize, _g: usize, _pre: Pre) -> VResult<()> {
    Ok(())
}

pub fn after_reload(_w: &mut World, _p: usize, _g: usize) -> VResult<()> {
    Ok(())
}

pub fn after_clear_pending(_w: &mut World, _p: usize, _g: usize, _pre: Pre) -> VResult<()> {
    Ok(())
}
