#!/bin/sh
# usage: sweep.sh <out-log> <seed> [<seed> ...]
# Runs every claimed check for each seed with *copies* of the current simulator binaries (so that later edits or
# seeded patches in /repo do not leak into a running sweep); evidence and replays go to a scratch directory.
out="$1"; shift
bin=/tmp/mlsim_sweep.$$; bin2=/tmp/mlsim_sr_sweep.$$
# (the binaries in target/ may have been built from a patched /repo by seedtest.sh: build from the current tree first)
(cd /verif/sim && CARGO_NET_OFFLINE=true cargo build --release --offline -q) || exit 2
(cd /verif/sim-sr && CARGO_NET_OFFLINE=true cargo build --release --offline -q) || exit 2
cp /verif/sim/target/release/mlsim $bin || exit 2
cp /verif/sim/target/release/mlsim-sr $bin2 || exit 2
for s in "$@"; do
  for P in C01 C02 C03 C04 C05 C06 C07 C08 C09 C10 C11 C12 C13 C14 C15 C16 C17 C18 C19; do
    for b in $bin $bin2; do
      if [ $b = $bin2 ]; then extra="VERIF_SECONDARY=1 VERIF_RUN_FRACTION=4"; tag=sr; else extra=""; tag=default; fi
      r=$(cd /verif/sim && env $extra VERIF_SEED=$s VERIF_DIR=/tmp/vt_sweep VERIF_JOBS=${VERIF_JOBS:-16} $b check $P --tier ${TIER:-quick} 2>&1)
      rc=$?
      echo "seed=$s $P $tag rc=$rc $(echo "$r" | grep -E 'VIOLATION|HARNESS' | head -2 | tr '\n' ' ') $(echo "$r" | grep -E 'signature=' | head -1) $(echo "$r" | grep -oE '[0-9]+ runs in [0-9.]+s')" >> "$out"
    done
  done
done
rm -f $bin $bin2
echo done >> "$out"
