#!/bin/sh
# usage: seedverify.sh <id> <worktree> [test-package ...]
# Confirms a seeded change in a scratch worktree: with the change the existing tests of the touched crates pass and
# the demonstration fails; without it the demonstration passes.
id="$1"; wt="$2"; shift 2; pkgs="${*:-mls-rs}"
d=/tmp/seeded_out/$id
cd "$wt" || exit 2
git checkout -q -- . && git clean -fdq -e target
export CARGO_TARGET_DIR=$wt/target CARGO_NET_OFFLINE=true
log=$d/verify.log; : > $log
git apply $d/patch.diff && git apply $d/demo.diff || { echo "apply failed" >> $log; exit 2; }
demo_files=$(git apply --numstat $d/demo.diff | awk '{print $3}')
echo "demo files: $demo_files" >> $log
# name of the demo test target / filter
for pk in $pkgs; do
  echo "== existing + demo tests of $pk WITH change" >> $log
  cargo test -p $pk --offline --no-fail-fast $(echo $pk | grep -q '^mls-rs$' && echo "--features ${FEATURES:-test_util}") >> $log 2>&1
  echo "rc_with=$?" >> $log
done
git apply -R $d/patch.diff
for pk in $pkgs; do
  echo "== existing + demo tests of $pk WITHOUT change" >> $log
  cargo test -p $pk --offline --no-fail-fast $(echo $pk | grep -q '^mls-rs$' && echo "--features ${FEATURES:-test_util}") >> $log 2>&1
  echo "rc_without=$?" >> $log
done
git checkout -q -- . && git clean -fdq -e target
grep -E "^== |rc_with|rc_without|test result|FAILED|failed|panicked" $log | grep -v "^test .* ok" | head -60 > $d/verify.summary
echo done >> $log
