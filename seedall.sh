#!/bin/sh
# usage: seedall.sh <out-log> [lanes] [id ...]
# Re-confirms the recorded seeded changes (/verif/seeded/<id>/patch.diff) against the CURRENT simulator sources, several
# at a time, without touching /repo: every lane has its own scratch worktree of /repo's HEAD and its own copy of the
# simulator crates (path dependencies rewritten to the worktree, own target directory). For each change: apply it in
# the lane's worktree, build both simulator binaries, run the quick check of the property (default-features build, then
# the self_remove_proposal build at a quarter of the runs - what ./check does), revert. A change counts as caught when
# one of the two prints a VIOLATION line. Everything it creates lives under /tmp/sa_* and is removed at the end.
out="$1"; lanes="${2:-4}"; shift; [ $# -gt 0 ] && shift
ids="$*"; [ -z "$ids" ] && ids=$(ls /verif/seeded)
: > "$out"
n=0; for id in $ids; do eval "lane_$((n % lanes))=\"\$lane_$((n % lanes)) $id\""; n=$((n + 1)); done
jobs=$((16 / lanes)); [ $jobs -lt 2 ] && jobs=2
run_lane() {
  i="$1"; shift
  wt=/tmp/sa_wt_$i; d=/tmp/sa_sim_$i
  git -C /repo worktree remove --force $wt 2>/dev/null; rm -rf $wt $d
  git -C /repo worktree add --detach -q $wt HEAD || { echo "lane $i: no worktree" >> "$out"; return; }
  mkdir -p $d/sim $d/sim-sr
  cp -r /verif/sim/Cargo.toml /verif/sim/src /verif/sim/.cargo $d/sim/; cp /repo/Cargo.lock $d/sim/Cargo.lock
  cp -r /verif/sim-sr/Cargo.toml /verif/sim-sr/.cargo $d/sim-sr/; cp /repo/Cargo.lock $d/sim-sr/Cargo.lock
  sed -i "s#\"/repo/#\"$wt/#" $d/sim/Cargo.toml $d/sim-sr/Cargo.toml
  for id in "$@"; do
    P=$(echo $id | cut -c1-3)
    ( cd $wt && git checkout -q -- . && git apply /verif/seeded/$id/patch.diff ) || { echo "$id apply-failed" >> "$out"; continue; }
    if ! ( cd $d/sim && CARGO_NET_OFFLINE=true cargo build --release --offline -q 2>$d/build.log && cd $d/sim-sr && CARGO_NET_OFFLINE=true cargo build --release --offline -q 2>>$d/build.log ); then
      echo "$id build-failed $(tail -3 $d/build.log | tr '\n' ' ')" >> "$out"; continue
    fi
    r=$(cd $d/sim && VERIF_DIR=/tmp/sa_out_$i VERIF_JOBS=$jobs ./target/release/mlsim check $P --tier quick 2>&1); rc=$?
    how=default
    if [ $rc -eq 0 ]; then
      r=$(cd $d/sim && VERIF_SECONDARY=1 VERIF_RUN_FRACTION=4 VERIF_DIR=/tmp/sa_out_$i VERIF_JOBS=$jobs ./target/release/mlsim-sr check $P --tier quick 2>&1); rc=$?
      how=sr
    fi
    echo "$id rc=$rc build=$how $(echo "$r" | grep -E 'VIOLATION|HARNESS' | head -1) $(echo "$r" | grep -E 'oracle=' | head -1)" >> "$out"
  done
  git -C /repo worktree remove --force $wt 2>/dev/null; rm -rf $wt $d /tmp/sa_out_$i
}
i=0
while [ $i -lt $lanes ]; do
  eval "l=\$lane_$i"
  run_lane $i $l &
  i=$((i + 1))
done
wait
echo done >> "$out"
