#!/bin/sh
# usage: thorough_all.sh <out-log> [budget-seconds]   every claimed check at the thorough tier, one after the other,
# with private copies of the simulator binaries (default-features build: the budget; self_remove_proposal build: a
# quarter of it); evidence and replays go to a scratch directory
out="$1"; b="${2:-600}"
bin=/tmp/mlsim_thorough.$$; bin2=/tmp/mlsim_sr_thorough.$$
# (the binaries in target/ may have been built from a patched /repo by seedtest.sh: build from the current tree first)
(cd /verif/sim && CARGO_NET_OFFLINE=true cargo build --release --offline -q) || exit 2
(cd /verif/sim-sr && CARGO_NET_OFFLINE=true cargo build --release --offline -q) || exit 2
cp /verif/sim/target/release/mlsim $bin || exit 2
cp /verif/sim/target/release/mlsim-sr $bin2 || exit 2
for P in C01 C02 C03 C04 C05 C06 C07 C08 C09 C10 C11 C12 C13 C14 C15 C16 C17 C18 C19; do
  r=$(cd /verif/sim && VERIF_DIR=/tmp/vt_thorough VERIF_BUDGET_S=$b VERIF_SEED=${VERIF_SEED:-20260922} $bin check $P --tier thorough 2>&1)
  rc=$?
  echo "$P default rc=$rc $(echo "$r" | grep -E 'VIOLATION|HARNESS' | head -2 | tr '\n' ' ') $(echo "$r" | grep -E 'signature=' | head -1) $(echo "$r" | grep -oE '[0-9]+ runs in [0-9.]+s')" >> "$out"
  r=$(cd /verif/sim && VERIF_SECONDARY=1 VERIF_RUN_FRACTION=4 VERIF_DIR=/tmp/vt_thorough VERIF_BUDGET_S=$((b / 4 + 1)) VERIF_SEED=${VERIF_SEED:-20260922} $bin2 check $P --tier thorough 2>&1)
  rc=$?
  echo "$P sr rc=$rc $(echo "$r" | grep -E 'VIOLATION|HARNESS' | head -2 | tr '\n' ' ') $(echo "$r" | grep -E 'signature=' | head -1) $(echo "$r" | grep -oE '[0-9]+ runs in [0-9.]+s')" >> "$out"
done
rm -f $bin $bin2
echo done >> "$out"
